------------------------------ MODULE TopicTree ------------------------------
(***************************************************************************)
(* Reference model of topic.Tree (C05): a plain map from topic to a         *)
(* duplicate-free collection of values, with the query operators defined   *)
(* through the reference matcher of TopicMatch.tla.                          *)
(*                                                                         *)
(* Topics are level sequences (<<"a","b">> is "a/b").  Stored topics may be *)
(* names or filters: Match(name) treats stored topics as filters, Search(f) *)
(* treats stored topics as names (literally), exactly one definition for    *)
(* both directions (C04: the directions agree).                              *)
(*                                                                         *)
(* TLC generates the complete reachable graph over Topics x Values; the    *)
(* ACTION_CONSTRAINT EmitEdge dumps every transition for replay on the real *)
(* tree, where every query is compared with the model's answer.             *)
(***************************************************************************)
EXTENDS TopicMatch, Json

CONSTANTS Topics,    \* set of topics (level sequences) that may be stored
          Values,    \* set of values (small naturals)
          QNames,    \* topic names used for Match queries
          QFilters   \* topic filters used for Search queries

VARIABLES tree,      \* [Topics -> SUBSET Values]
          lastop     \* history variable: last operation (hidden by VIEW)

vars == <<tree, lastop>>
view == tree

EmptyTree == [t \in Topics |-> {}]

\* ---- pure update operators (shared with TopicTreeLin.tla)
AddF(tr, t, v)    == [tr EXCEPT ![t] = @ \cup {v}]
SetF(tr, t, v)    == [tr EXCEPT ![t] = {v}]
RemoveF(tr, t, v) == [tr EXCEPT ![t] = @ \ {v}]
EmptyF(tr, t)     == [tr EXCEPT ![t] = {}]
ClearF(tr, v)     == [t \in Topics |-> tr[t] \ {v}]

\* ---- queries
GetQ(tr, t)    == tr[t]
MatchQ(tr, n)  == UNION {tr[t] : t \in {x \in Topics : Matches(x, n)}}
SearchQ(tr, f) == UNION {tr[t] : t \in {x \in Topics : Matches(f, x)}}
AllQ(tr)       == UNION {tr[t] : t \in Topics}
RECURSIVE SumCard(_, _)
SumCard(tr, S) == IF S = {} THEN 0 ELSE LET t == CHOOSE x \in S : TRUE IN Cardinality(tr[t]) + SumCard(tr, S \ {t})
CountQ(tr)     == SumCard(tr, Topics)

Contents(tr) == {[t |-> x[1], v |-> x[2]] : x \in {y \in Topics \X Values : y[2] \in tr[y[1]]}}

Init ==
  /\ tree = EmptyTree
  /\ lastop = [op |-> "init"]

Add(t, v)    == tree' = AddF(tree, t, v)    /\ lastop' = [op |-> "add", t |-> t, v |-> v]
Set(t, v)    == tree' = SetF(tree, t, v)    /\ lastop' = [op |-> "set", t |-> t, v |-> v]
Remove(t, v) == tree' = RemoveF(tree, t, v) /\ lastop' = [op |-> "remove", t |-> t, v |-> v]
Empty(t)     == tree' = EmptyF(tree, t)     /\ lastop' = [op |-> "empty", t |-> t]
Clear(v)     == tree' = ClearF(tree, v)     /\ lastop' = [op |-> "clear", v |-> v]
Reset        == tree' = EmptyTree           /\ lastop' = [op |-> "reset"]

Next ==
  \/ Reset
  \/ \E v \in Values : Clear(v)
  \/ \E t \in Topics : Empty(t) \/ \E v \in Values : Add(t, v) \/ Set(t, v) \/ Remove(t, v)

Spec == Init /\ [][Next]_vars

\* ---- properties of the reference itself
TypeOK == tree \in [Topics -> SUBSET Values]
\* Count counts per topic, All is duplicate-free
CountVsAll == Cardinality(AllQ(tree)) <= CountQ(tree)
\* operations touch only what they name
Frame ==
  [][ /\ lastop'.op \in {"add", "set", "remove", "empty"} => \A t \in Topics \ {lastop'.t} : tree'[t] = tree[t]
      /\ lastop'.op = "clear" => \A t \in Topics : tree'[t] = tree[t] \ {lastop'.v}
      /\ lastop'.op = "add" => tree'[lastop'.t] = tree[lastop'.t] \cup {lastop'.v}
      /\ lastop'.op = "set" => tree'[lastop'.t] = {lastop'.v}
      /\ lastop'.op = "remove" => tree'[lastop'.t] = tree[lastop'.t] \ {lastop'.v} ]_vars

\* ---- state dump with the model's answer to every query (INVARIANT position: once per distinct state)
Answers(tr) ==
  [s      |-> Contents(tr),
   get    |-> {[t |-> t, vs |-> GetQ(tr, t)] : t \in Topics},
   match  |-> {[n |-> n, vs |-> MatchQ(tr, n)] : n \in QNames},
   search |-> {[f |-> f, vs |-> SearchQ(tr, f)] : f \in QFilters},
   all    |-> AllQ(tr),
   count  |-> CountQ(tr)]
EmitState == PrintT(<<"STATE", ToJson(Answers(tree))>>)

\* ---- edge dump (ACTION_CONSTRAINT, -workers 1, VIEW view)
EmitEdge ==
  PrintT(<<"EDGE", ToJson([fs |-> Contents(tree), op |-> lastop', ts |-> Contents(tree')])>>)
=============================================================================
