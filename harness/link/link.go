// Package link is the harness-owned in-memory connection between gomqtt (a
// broker.Client or a client.Client) and a scripted peer. Enqueue/dequeue and
// the corresponding log entry happen under the log's mutex, so the
// specification's channel variables are exact. Packets cross the link
// through the real codec (Encode -> Decode).
package link

import (
	"errors"
	"fmt"
	"hash/fnv"
	"net"
	"strings"
	"sync/atomic"
	"time"

	"github.com/256dpi/gomqtt/packet"

	"verif/harness/trace"
)

// ErrCut is returned after an injected connection failure.
var ErrCut = errors.New("link cut (injected)")

// ErrClosed is returned on a closed link.
var ErrClosed = errors.New("link closed")

// ErrTimeout is returned when the read timeout expires.
var ErrTimeout = errors.New("i/o timeout (read deadline)")

// ErrEOF is returned when the other side closed and everything was read.
var ErrEOF = errors.New("EOF")

// Fault cuts the link before or after the Op-th operation (Send call or
// Receive delivery, counted from 1) of the gomqtt side.
type Fault struct {
	Op   int    `json:"op"`
	When string `json:"when"` // "before" | "after"
}

// Link is one connection instance.
type Link struct {
	Log   *trace.Log
	Name  string // connection instance, e.g. "k3"
	G     string // event prefix of the gomqtt side: "b" (broker) or "c" (client)
	toG   []packet.Generic
	toP   []packet.Generic
	state string // up | pclosed | gclosed | dead
	ops   int
	Fault *Fault

	readTimeout time.Duration
	lastRead    time.Time
	gen         int64

	// SendGate, if set, is called (without the lock) before every Send of the gomqtt side.
	SendGate func(pkt packet.Generic)

	// AsyncBuffer mimics BaseConn's buffered writer: the first asynchronous Send after the connection
	// ended is accepted into the buffer (and lost); the failed flush makes every later Send fail.
	AsyncBuffer bool
	buffered    bool
}

// New creates a link in state up and logs popen.
func New(log *trace.Log, name, g string) *Link {
	l := &Link{Log: log, Name: name, G: g, state: "up", lastRead: time.Now()}
	return l
}

// State returns the link state.
func (l *Link) State() string {
	l.Log.Mu.Lock()
	defer l.Log.Mu.Unlock()
	return l.state
}

// Ops returns the number of gomqtt-side operations counted so far.
func (l *Link) Ops() int {
	l.Log.Mu.Lock()
	defer l.Log.Mu.Unlock()
	return l.ops
}

func copyPacket(pkt packet.Generic) (packet.Generic, error) {
	buf := make([]byte, pkt.Len())
	n, err := pkt.Encode(buf)
	if err != nil {
		return nil, err
	}
	out, err := pkt.Type().New()
	if err != nil {
		return nil, err
	}
	_, err = out.Decode(buf[:n])
	if err != nil {
		return nil, fmt.Errorf("harness: re-decode failed: %v", err)
	}
	return out, nil
}

func (l *Link) cutLocked(why string) {
	if l.state != "dead" {
		l.state = "dead"
		l.toG, l.toP = nil, nil
		l.Log.AddLocked("cut", "c", l.Name, "why", why)
	}
}

// ---------------------------------------------------------------- gomqtt side (transport.Conn)

// Conn is the transport.Conn handed to gomqtt.
type Conn struct{ L *Link }

// Send implements transport.Conn.
func (c Conn) Send(pkt packet.Generic, async bool) error {
	l := c.L
	if l.SendGate != nil {
		l.SendGate(pkt)
	}
	cp, encErr := copyPacket(pkt)
	l.Log.Mu.Lock()
	defer l.Log.Mu.Unlock()
	l.ops++
	if l.Fault != nil && l.Fault.Op == l.ops && l.Fault.When == "before" {
		l.cutLocked(fmt.Sprintf("before op %d", l.ops))
	}
	if encErr != nil {
		// BaseConn closes the carrier when the stream encoder fails
		l.Log.AddLocked(l.G+"send_err", "c", l.Name, "pkt", PktRec(pkt), "err", "encode: "+encErr.Error())
		l.gcloseLocked()
		return encErr
	}
	if l.state != "up" && l.AsyncBuffer && async && !l.buffered {
		l.buffered = true
		l.Log.AddLocked(l.G+"send_buf", "c", l.Name, "pkt", PktRec(pkt))
		return nil
	}
	if l.state != "up" {
		l.Log.AddLocked(l.G+"send_err", "c", l.Name, "pkt", PktRec(pkt), "err", l.state)
		l.gcloseLocked()
		if l.state == "dead" {
			return ErrCut
		}
		return ErrClosed
	}
	l.Log.AddLocked(l.G+"send", "c", l.Name, "pkt", PktRec(pkt), "async", async)
	l.toP = append(l.toP, cp)
	if l.Fault != nil && l.Fault.Op == l.ops && l.Fault.When == "after" {
		// the packet was handed to the network; then the connection fails
		l.cutLocked(fmt.Sprintf("after op %d", l.ops))
	}
	return nil
}

func (l *Link) gcloseLocked() {
	switch l.state {
	case "up":
		l.state = "gclosed"
	case "pclosed":
		l.state = "dead"
		l.toG, l.toP = nil, nil
	}
	l.Log.Cond.Broadcast()
}

// Receive implements transport.Conn.
func (c Conn) Receive() (packet.Generic, error) {
	l := c.L
	l.Log.Mu.Lock()
	defer l.Log.Mu.Unlock()
	for {
		if l.state == "gclosed" || l.state == "dead" {
			err := ErrClosed
			if l.state == "dead" {
				err = ErrCut
			}
			l.Log.AddLocked(l.G+"recv_err", "c", l.Name, "err", err.Error())
			l.gcloseLocked()
			return nil, err
		}
		if len(l.toG) > 0 {
			l.ops++
			if l.Fault != nil && l.Fault.Op == l.ops && l.Fault.When == "before" {
				l.cutLocked(fmt.Sprintf("before op %d", l.ops))
				continue
			}
			pkt := l.toG[0]
			l.toG = l.toG[1:]
			l.lastRead = time.Now()
			l.Log.AddLocked(l.G+"recv", "c", l.Name, "pkt", PktRec(pkt))
			if l.Fault != nil && l.Fault.Op == l.ops && l.Fault.When == "after" {
				l.cutLocked(fmt.Sprintf("after op %d", l.ops))
			}
			return pkt, nil
		}
		if l.state == "pclosed" {
			l.Log.AddLocked(l.G+"recv_err", "c", l.Name, "err", "EOF")
			l.gcloseLocked()
			return nil, ErrEOF
		}
		if l.readTimeout > 0 {
			rest := time.Until(l.lastRead.Add(l.readTimeout))
			if rest <= 0 {
				l.Log.AddLocked(l.G+"recv_err", "c", l.Name, "err", "timeout")
				l.gcloseLocked()
				return nil, ErrTimeout
			}
			gen := atomic.AddInt64(&l.gen, 1)
			time.AfterFunc(rest+time.Millisecond, func() {
				if atomic.LoadInt64(&l.gen) == gen {
					l.Log.Mu.Lock()
					l.Log.Cond.Broadcast()
					l.Log.Mu.Unlock()
				}
			})
		}
		l.Log.Cond.Wait()
	}
}

// Close implements transport.Conn.
func (c Conn) Close() error {
	l := c.L
	l.Log.Mu.Lock()
	defer l.Log.Mu.Unlock()
	l.Log.AddLocked(l.G+"close", "c", l.Name)
	l.gcloseLocked()
	return nil
}

// SetReadLimit implements transport.Conn.
func (c Conn) SetReadLimit(limit int64) {}

// SetReadTimeout implements transport.Conn.
func (c Conn) SetReadTimeout(timeout time.Duration) {
	l := c.L
	l.Log.Mu.Lock()
	l.readTimeout = timeout
	l.lastRead = time.Now()
	l.Log.Cond.Broadcast()
	l.Log.Mu.Unlock()
}

// SetMaxWriteDelay implements transport.Conn.
func (c Conn) SetMaxWriteDelay(delay time.Duration) {}

type addr string

func (a addr) Network() string { return "mem" }
func (a addr) String() string  { return string(a) }

// LocalAddr implements transport.Conn.
func (c Conn) LocalAddr() net.Addr { return addr("gomqtt:" + c.L.Name) }

// RemoteAddr implements transport.Conn.
func (c Conn) RemoteAddr() net.Addr { return addr("peer:" + c.L.Name) }

// ---------------------------------------------------------------- scripted side

// clonePacket copies a packet without the library's encoder: the scripted peer stands for a foreign
// implementation, so what it can put on the wire must not depend on the codec under test.
func clonePacket(pkt packet.Generic) (packet.Generic, error) {
	switch p := pkt.(type) {
	case *packet.Connect:
		c := *p
		if p.Will != nil {
			w := *p.Will
			w.Payload = append([]byte(nil), p.Will.Payload...)
			c.Will = &w
		}
		return &c, nil
	case *packet.Connack:
		c := *p
		return &c, nil
	case *packet.Publish:
		c := *p
		c.Message.Payload = append([]byte(nil), p.Message.Payload...)
		return &c, nil
	case *packet.Puback:
		c := *p
		return &c, nil
	case *packet.Pubrec:
		c := *p
		return &c, nil
	case *packet.Pubrel:
		c := *p
		return &c, nil
	case *packet.Pubcomp:
		c := *p
		return &c, nil
	case *packet.Subscribe:
		c := *p
		c.Subscriptions = append([]packet.Subscription(nil), p.Subscriptions...)
		return &c, nil
	case *packet.Suback:
		c := *p
		c.ReturnCodes = append([]packet.QOS(nil), p.ReturnCodes...)
		return &c, nil
	case *packet.Unsubscribe:
		c := *p
		c.Topics = append([]string(nil), p.Topics...)
		return &c, nil
	case *packet.Unsuback:
		c := *p
		return &c, nil
	case *packet.Pingreq:
		return packet.NewPingreq(), nil
	case *packet.Pingresp:
		return packet.NewPingresp(), nil
	case *packet.Disconnect:
		return packet.NewDisconnect(), nil
	}
	return nil, fmt.Errorf("unknown packet type")
}

// PSend puts a packet on the wire towards gomqtt (logged as psend). It returns false if the link is no longer up.
func (l *Link) PSend(pkt packet.Generic) bool {
	cp, err := clonePacket(pkt)
	l.Log.Mu.Lock()
	defer l.Log.Mu.Unlock()
	if l.state != "up" {
		return false
	}
	if err != nil {
		// a packet the codec cannot carry: send nothing, tell the scenario
		l.Log.AddLocked("pnote", "c", l.Name, "note", "unsendable packet: "+err.Error())
		return false
	}
	l.Log.AddLocked("psend", "c", l.Name, "pkt", PktRec(pkt))
	l.toG = append(l.toG, cp)
	l.Log.Cond.Broadcast()
	return true
}

// PRecv blocks until a packet from gomqtt is available (logged as precv) or the link ended (nil).
func (l *Link) PRecv() packet.Generic {
	l.Log.Mu.Lock()
	defer l.Log.Mu.Unlock()
	for {
		if len(l.toP) > 0 && l.state != "dead" {
			pkt := l.toP[0]
			l.toP = l.toP[1:]
			l.Log.AddLocked("precv", "c", l.Name, "pkt", PktRec(pkt))
			return pkt
		}
		if l.state == "gclosed" || l.state == "dead" || l.state == "pclosed" {
			l.Log.AddLocked("peof", "c", l.Name)
			return nil
		}
		l.Log.Cond.Wait()
	}
}

// PClose closes the scripted side.
func (l *Link) PClose() {
	l.Log.Mu.Lock()
	defer l.Log.Mu.Unlock()
	switch l.state {
	case "up":
		l.state = "pclosed"
		l.Log.AddLocked("pclose", "c", l.Name)
	case "gclosed":
		l.state = "dead"
		l.toG, l.toP = nil, nil
		l.Log.AddLocked("pclose", "c", l.Name)
	}
	l.Log.Cond.Broadcast()
}

// Cut fails the connection in both directions, discarding what is in flight.
func (l *Link) Cut(why string) {
	l.Log.Mu.Lock()
	defer l.Log.Mu.Unlock()
	l.cutLocked(why)
	l.Log.Cond.Broadcast()
}

// ---------------------------------------------------------------- packet records

func levels(topic string) []string { return strings.Split(topic, "/") }

// MsgRec describes an application message: m is the tag (payload up to the first '|'),
// plen/psum identify the payload bytes.
func MsgRec(m *packet.Message) map[string]interface{} {
	tag := string(m.Payload)
	if i := strings.IndexByte(tag, '|'); i >= 0 {
		tag = tag[:i]
	}
	if len(tag) > 48 {
		tag = tag[:48]
	}
	h := fnv.New32a()
	h.Write(m.Payload)
	return map[string]interface{}{"m": tag, "top": levels(m.Topic), "q": int(m.QOS), "ret": m.Retain,
		"plen": len(m.Payload), "psum": int(h.Sum32() % 1000000007)}
}

var typeNames = map[packet.Type]string{packet.CONNECT: "CONNECT", packet.CONNACK: "CONNACK", packet.PUBLISH: "PUBLISH",
	packet.PUBACK: "PUBACK", packet.PUBREC: "PUBREC", packet.PUBREL: "PUBREL", packet.PUBCOMP: "PUBCOMP",
	packet.SUBSCRIBE: "SUBSCRIBE", packet.SUBACK: "SUBACK", packet.UNSUBSCRIBE: "UNSUBSCRIBE", packet.UNSUBACK: "UNSUBACK",
	packet.PINGREQ: "PINGREQ", packet.PINGRESP: "PINGRESP", packet.DISCONNECT: "DISCONNECT"}

// NoMsg is the record used where no message is present.
func NoMsg() map[string]interface{} {
	return map[string]interface{}{"m": "none", "top": []string{}, "q": 0, "ret": false, "plen": 0, "psum": 0}
}

// PktRec is the logged form of a packet.
func PktRec(g packet.Generic) map[string]interface{} {
	if g == nil {
		return map[string]interface{}{"t": "none", "id": 0}
	}
	r := map[string]interface{}{"t": typeNames[g.Type()], "id": 0}
	if id, ok := packet.GetID(g); ok {
		r["id"] = int(id)
	}
	switch p := g.(type) {
	case *packet.Connect:
		r["cid"] = p.ClientID
		r["clean"] = p.CleanSession
		r["ka"] = int(p.KeepAlive)
		r["user"] = p.Username
		r["pass"] = p.Password
		r["haswill"] = p.Will != nil
		if p.Will != nil {
			r["will"] = MsgRec(p.Will)
		} else {
			r["will"] = NoMsg()
		}
	case *packet.Connack:
		r["sp"] = p.SessionPresent
		r["rc"] = int(p.ReturnCode)
	case *packet.Publish:
		r["dup"] = p.Dup
		r["msg"] = MsgRec(&p.Message)
	case *packet.Subscribe:
		subs := []interface{}{}
		for _, s := range p.Subscriptions {
			subs = append(subs, map[string]interface{}{"f": levels(s.Topic), "q": int(s.QOS)})
		}
		r["subs"] = subs
	case *packet.Suback:
		codes := []int{}
		for _, c := range p.ReturnCodes {
			codes = append(codes, int(c))
		}
		r["codes"] = codes
	case *packet.Unsubscribe:
		ts := []interface{}{}
		for _, t := range p.Topics {
			ts = append(ts, levels(t))
		}
		r["topics"] = ts
	}
	return r
}
