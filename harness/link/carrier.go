package link

import (
	"errors"
	"io"
	"os"
	"sync"
	"time"

	"verif/harness/trace"
)

// ErrCarrier is the injected carrier failure.
var ErrCarrier = errors.New("carrier failure (injected)")

// Carrier is an in-memory transport.Carrier with TCP-like semantics (deadlines can be set until the
// LOCAL side is closed; data written before a remote close stays readable, then EOF), scripted
// read chunking and fault injection. Every call of the gomqtt side is logged.
type Carrier struct {
	Log  *trace.Log
	Name string

	mu       sync.Mutex
	cond     *sync.Cond
	in       []byte // bytes the peer wrote, not yet read by gomqtt
	out      []byte // everything gomqtt wrote successfully (the wire)
	closed   bool   // local close
	rclosed  bool   // remote close (EOF after in is drained)
	deadline time.Time

	// Chunks limits the n-th successful Read to at most Chunks[n] bytes (then unlimited).
	Chunks []int
	nread  int
	// FailWrite / FailRead / FailClose / FailDeadline: the n-th call (1-based) fails.
	FailWrite, FailRead, FailClose, FailDeadline int
	nwrite, nreadc, nclose, ndeadline         int
	// PartialWrite makes the failing write accept this many bytes before the error.
	PartialWrite int
	// WriteDelay slows every Write down (widens the window for a concurrent Close).
	WriteDelay time.Duration
	// BlockWrite makes the n-th Write block until the carrier is closed locally (a peer that stopped reading).
	BlockWrite int
	// Quiet suppresses cread events (replay of many fragmentations).
	Quiet bool
}

// NewCarrier returns an open carrier.
func NewCarrier(log *trace.Log, name string) *Carrier {
	c := &Carrier{Log: log, Name: name}
	c.cond = sync.NewCond(&c.mu)
	return c
}

// Feed is the peer writing bytes towards gomqtt.
func (c *Carrier) Feed(b []byte) {
	c.mu.Lock()
	c.in = append(c.in, b...)
	c.cond.Broadcast()
	c.mu.Unlock()
}

// RemoteClose is the peer closing its side.
func (c *Carrier) RemoteClose() {
	c.mu.Lock()
	c.rclosed = true
	c.cond.Broadcast()
	c.mu.Unlock()
}

// Wire returns everything gomqtt wrote successfully.
func (c *Carrier) Wire() []byte {
	c.mu.Lock()
	defer c.mu.Unlock()
	return append([]byte{}, c.out...)
}

func (c *Carrier) logf(ev string, kv ...interface{}) {
	if c.Log != nil {
		c.Log.Add(ev, append([]interface{}{"c", c.Name}, kv...)...)
	}
}

func ints(b []byte) []int {
	out := make([]int, len(b))
	for i, x := range b {
		out[i] = int(x)
	}
	return out
}

// Read implements io.Reader.
func (c *Carrier) Read(p []byte) (int, error) {
	c.mu.Lock()
	defer c.mu.Unlock()
	c.nreadc++
	if c.FailRead == c.nreadc {
		c.logfLocked("cread", "n", 0, "err", ErrCarrier.Error())
		return 0, ErrCarrier
	}
	for {
		if c.closed {
			c.logfLocked("cread", "n", 0, "err", "closed")
			return 0, errors.New("use of closed carrier")
		}
		if len(c.in) > 0 {
			n := len(p)
			if n > len(c.in) {
				n = len(c.in)
			}
			if c.nread < len(c.Chunks) && c.Chunks[c.nread] < n && c.Chunks[c.nread] > 0 {
				n = c.Chunks[c.nread]
			}
			c.nread++
			copy(p, c.in[:n])
			c.in = c.in[n:]
			if !c.Quiet {
				c.logfLocked("cread", "n", n, "err", "")
			}
			return n, nil
		}
		if c.rclosed {
			c.logfLocked("cread", "n", 0, "err", "EOF")
			return 0, io.EOF
		}
		if !c.deadline.IsZero() {
			rest := time.Until(c.deadline)
			if rest <= 0 {
				c.logfLocked("cread", "n", 0, "err", "timeout")
				return 0, os.ErrDeadlineExceeded
			}
			time.AfterFunc(rest+time.Millisecond, func() { c.mu.Lock(); c.cond.Broadcast(); c.mu.Unlock() })
		}
		c.cond.Wait()
	}
}

func (c *Carrier) logfLocked(ev string, kv ...interface{}) {
	// the carrier's own mutex is held; the log has its own
	c.logf(ev, kv...)
}

// Write implements io.Writer.
func (c *Carrier) Write(p []byte) (int, error) {
	if c.WriteDelay > 0 {
		time.Sleep(c.WriteDelay)
	}
	c.mu.Lock()
	defer c.mu.Unlock()
	c.nwrite++
	if c.BlockWrite == c.nwrite {
		for !c.closed {
			c.cond.Wait()
		}
	}
	if c.closed {
		c.logfLocked("cwrite", "b", []int{}, "att", ints(p), "err", "closed")
		return 0, errors.New("use of closed carrier")
	}
	if c.FailWrite == c.nwrite {
		n := c.PartialWrite
		if n > len(p) {
			n = len(p)
		}
		c.out = append(c.out, p[:n]...)
		c.logfLocked("cwrite", "b", ints(p[:n]), "att", ints(p), "err", ErrCarrier.Error())
		return n, ErrCarrier
	}
	c.out = append(c.out, p...)
	c.logfLocked("cwrite", "b", ints(p), "att", ints(p), "err", "")
	return len(p), nil
}

// Close implements io.Closer.
func (c *Carrier) Close() error {
	c.mu.Lock()
	defer c.mu.Unlock()
	c.nclose++
	first := !c.closed
	c.closed = true
	c.cond.Broadcast()
	if c.FailClose == c.nclose {
		c.logfLocked("cclose", "first", first, "err", ErrCarrier.Error())
		return ErrCarrier
	}
	c.logfLocked("cclose", "first", first, "err", "")
	return nil
}

// SetReadDeadline implements transport.Carrier.
func (c *Carrier) SetReadDeadline(t time.Time) error {
	c.mu.Lock()
	defer c.mu.Unlock()
	c.ndeadline++
	if c.closed {
		return errors.New("use of closed carrier")
	}
	if c.FailDeadline == c.ndeadline {
		c.logfLocked("cdeadline", "err", ErrCarrier.Error())
		return ErrCarrier
	}
	c.deadline = t
	c.cond.Broadcast()
	return nil
}
