package link

import (
	"net"
	"sync"
	"time"

	"verif/harness/trace"
)

// LogConn is a real net.Conn (TCP on loopback) whose Read/Write/Close/SetReadDeadline calls are logged with the same events
// as the scripted Carrier, with the same fault injection.  Write and Close are made mutually exclusive (so that "write
// succeeded" and "closed" are logged in the order they happened) except when a write is blocked by back pressure: Close
// then goes ahead after a short wait, and the write it unblocks is logged afterwards with its error.
type LogConn struct {
	net.Conn
	Log  *trace.Log
	Name string

	wmu    sync.RWMutex
	mu     sync.Mutex
	closed bool

	FailWrite, FailRead, FailClose, FailDeadline int
	PartialWrite                                 int
	nwrite, nread, nclose, ndeadline             int
}

func (c *LogConn) logf(ev string, kv ...interface{}) {
	if c.Log != nil {
		c.Log.Add(ev, append([]interface{}{"c", c.Name}, kv...)...)
	}
}

func (c *LogConn) count(p *int) int {
	c.mu.Lock()
	defer c.mu.Unlock()
	*p++
	return *p
}

func errText(err error) string {
	if err == nil {
		return ""
	}
	return err.Error()
}

// Write implements net.Conn.
func (c *LogConn) Write(p []byte) (int, error) {
	k := c.count(&c.nwrite)
	c.wmu.RLock()
	defer c.wmu.RUnlock()
	if c.FailWrite == k {
		n := c.PartialWrite
		if n > len(p) {
			n = len(p)
		}
		if n > 0 {
			c.Conn.Write(p[:n])
		}
		c.logf("cwrite", "b", ints(p[:n]), "att", ints(p), "err", ErrCarrier.Error())
		return n, ErrCarrier
	}
	n, err := c.Conn.Write(p)
	if n < 0 {
		n = 0
	}
	c.logf("cwrite", "b", ints(p[:n]), "att", ints(p), "err", errText(err))
	return n, err
}

// Read implements net.Conn.
func (c *LogConn) Read(p []byte) (int, error) {
	k := c.count(&c.nread)
	if c.FailRead == k {
		c.logf("cread", "n", 0, "err", ErrCarrier.Error())
		return 0, ErrCarrier
	}
	n, err := c.Conn.Read(p)
	c.logf("cread", "n", n, "err", errText(err))
	return n, err
}

// Close implements net.Conn.
func (c *LogConn) Close() error {
	k := c.count(&c.nclose)
	locked := false
	for i := 0; i < 40; i++ {
		if c.wmu.TryLock() {
			locked = true
			break
		}
		time.Sleep(500 * time.Microsecond)
	}
	c.mu.Lock()
	first := !c.closed
	c.closed = true
	c.mu.Unlock()
	err := c.Conn.Close()
	if !first {
		err = nil // (net.Conn reports "use of closed network connection" for a repeated Close; the scripted carrier does not)
	}
	if c.FailClose == k {
		err = ErrCarrier
	}
	c.logf("cclose", "first", first, "err", errText(err))
	if locked {
		c.wmu.Unlock()
	}
	return err
}

// SetReadDeadline implements net.Conn.
func (c *LogConn) SetReadDeadline(t time.Time) error {
	k := c.count(&c.ndeadline)
	if c.FailDeadline == k {
		c.logf("cdeadline", "err", ErrCarrier.Error())
		return ErrCarrier
	}
	return c.Conn.SetReadDeadline(t)
}
