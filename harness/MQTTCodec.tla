------------------------------ MODULE MQTTCodec ------------------------------
(***************************************************************************)
(* Reference codec for MQTT 3.1.1 control packets, written from the        *)
(* OASIS standard (sections 2 and 3), not from the Go code.  C01, C02.     *)
(*                                                                         *)
(* Two representations of byte strings are used:                            *)
(*  - explicit: a sequence of naturals 0..255 (decoder side, small inputs) *)
(*  - runs: a sequence of [n |-> count, b |-> byte] (encoder side, so that *)
(*    65 535-byte fields and multi-megabyte payloads cost nothing)          *)
(*                                                                         *)
(* A packet is a record with ALL fields present (unused ones blank) so     *)
(* that records coming from the Go harness as JSON compare with `='.       *)
(*                                                                         *)
(* Library leniencies (documented in DESIGN.md C02, each deliberate):      *)
(*  L1 non-minimal remaining-length encodings are accepted                  *)
(*  L2 CONNECT protocol level 3 with name "MQIsdp" is accepted              *)
(*  L3 bytes of the remaining length left after the last field of CONNECT  *)
(*     and CONNACK are ignored; the consumed count then is the end of the  *)
(*     last field (<= extent)                                               *)
(*  L4 user-name/password flag with an empty string; DUP on QoS 0           *)
(*  L5 no UTF-8 / wildcard / U+0000 / length validation of strings, topic   *)
(*     filters may be empty, client id of any length                        *)
(* NOT leniencies: zero-length PUBLISH topic or will topic; any read       *)
(* beyond the header-declared extent.                                       *)
(***************************************************************************)
EXTENDS Naturals, Sequences, FiniteSets, TLC

CONNECT == 1  CONNACK == 2  PUBLISH == 3  PUBACK == 4  PUBREC == 5  PUBREL == 6  PUBCOMP == 7
SUBSCRIBE == 8  SUBACK == 9  UNSUBSCRIBE == 10  UNSUBACK == 11  PINGREQ == 12  PINGRESP == 13  DISCONNECT == 14

MaxVarint == 268435455

Blank == [t |-> 0, dup |-> FALSE, qos |-> 0, ret |-> FALSE, id |-> 0, topic |-> <<>>, payload |-> <<>>,
          sp |-> FALSE, rc |-> 0,
          cid |-> <<>>, ka |-> 0, clean |-> FALSE, ver |-> 0, will |-> FALSE, wtopic |-> <<>>, wpayload |-> <<>>,
          wqos |-> 0, wret |-> FALSE, user |-> <<>>, pass |-> <<>>,
          subs |-> <<>>, codes |-> <<>>, topics |-> <<>>]

DefaultFlags(t) == IF t \in {PUBREL, SUBSCRIBE, UNSUBSCRIBE} THEN 2 ELSE 0
Identified == {PUBACK, PUBREC, PUBREL, PUBCOMP, UNSUBACK}
Naked == {PINGREQ, PINGRESP, DISCONNECT}
NameMQTT == <<77, 81, 84, 84>>
NameMQIsdp == <<77, 81, 73, 115, 100, 112>>

----------------------------------------------------------------------------
(* Runs *)
B1(x) == <<[n |-> 1, b |-> x]>>
RECURSIVE RLen(_)
RLen(rs) == IF rs = <<>> THEN 0 ELSE Head(rs).n + RLen(Tail(rs))
RECURSIVE Expand(_)
Expand(rs) == IF rs = <<>> THEN <<>> ELSE [i \in 1..Head(rs).n |-> Head(rs).b] \o Expand(Tail(rs))
ToRuns(s) == [i \in 1..Len(s) |-> [n |-> 1, b |-> s[i]]]
\* drop empty runs and merge nothing: comparison is always done on expanded bytes or by the harness

U16R(x) == B1(x \div 256) \o B1(x % 256)
VarintLen(x) == IF x < 128 THEN 1 ELSE IF x < 16384 THEN 2 ELSE IF x < 2097152 THEN 3 ELSE 4
RECURSIVE VarintR(_)
VarintR(x) == IF x < 128 THEN B1(x) ELSE B1(128 + (x % 128)) \o VarintR(x \div 128)
LPR(rs) == U16R(RLen(rs)) \o rs

RECURSIVE CatAll(_)
CatAll(ss) == IF ss = <<>> THEN <<>> ELSE Head(ss) \o CatAll(Tail(ss))

----------------------------------------------------------------------------
(* Encoder over run-form packets (fields topic, payload, cid, ... are runs; subs is a
   sequence of [topic |-> runs, qos |-> 0..2]; codes is runs; topics a sequence of runs) *)

ConnectFlags(p) ==
    (IF RLen(p.user) > 0 THEN 128 ELSE 0) + (IF RLen(p.pass) > 0 THEN 64 ELSE 0)
  + (IF p.will /\ p.wret THEN 32 ELSE 0) + (IF p.will THEN p.wqos * 8 + 4 ELSE 0) + (IF p.clean THEN 2 ELSE 0)

BodyR(p) ==
  CASE p.t = CONNECT ->
         LPR(ToRuns(IF p.ver = 3 THEN NameMQIsdp ELSE NameMQTT)) \o B1(p.ver) \o B1(ConnectFlags(p)) \o U16R(p.ka) \o LPR(p.cid)
         \o (IF p.will THEN LPR(p.wtopic) \o LPR(p.wpayload) ELSE <<>>)
         \o (IF RLen(p.user) > 0 THEN LPR(p.user) ELSE <<>>)
         \o (IF RLen(p.pass) > 0 THEN LPR(p.pass) ELSE <<>>)
    [] p.t = CONNACK -> B1(IF p.sp THEN 1 ELSE 0) \o B1(p.rc)
    [] p.t = PUBLISH -> LPR(p.topic) \o (IF p.qos > 0 THEN U16R(p.id) ELSE <<>>) \o p.payload
    [] p.t \in Identified -> U16R(p.id)
    [] p.t = SUBSCRIBE -> U16R(p.id) \o CatAll([i \in 1..Len(p.subs) |-> LPR(p.subs[i].topic) \o B1(p.subs[i].qos)])
    [] p.t = SUBACK -> U16R(p.id) \o p.codes
    [] p.t = UNSUBSCRIBE -> U16R(p.id) \o CatAll([i \in 1..Len(p.topics) |-> LPR(p.topics[i])])
    [] p.t \in Naked -> <<>>

FirstByte(p) ==
  p.t * 16 + (IF p.t = PUBLISH THEN (IF p.dup THEN 8 ELSE 0) + p.qos * 2 + (IF p.ret THEN 1 ELSE 0) ELSE DefaultFlags(p.t))

RemLenR(p) == RLen(BodyR(p))
EncR(p)    == B1(FirstByte(p)) \o VarintR(RemLenR(p)) \o BodyR(p)
PLenR(p)   == 1 + VarintLen(RemLenR(p)) + RemLenR(p)

\* what the encoder must accept (well-formed packet values of the library's data model)
WellFormedR(p) ==
  /\ p.t \in 1..14
  /\ RemLenR(p) <= MaxVarint
  /\ p.t = PUBLISH => (p.qos \in 0..2 /\ RLen(p.topic) \in 1..65535 /\ (p.qos > 0 => p.id \in 1..65535))
  /\ p.t \in Identified \cup {SUBSCRIBE, SUBACK, UNSUBSCRIBE} => p.id \in 1..65535
  /\ p.t = CONNACK => p.rc \in 0..5
  /\ p.t = SUBSCRIBE => (Len(p.subs) >= 1 /\ \A i \in 1..Len(p.subs) : p.subs[i].qos \in 0..2 /\ RLen(p.subs[i].topic) <= 65535)
  /\ p.t = SUBACK => \A i \in 1..Len(p.codes) : p.codes[i].b \in {0, 1, 2, 128}
  /\ p.t = UNSUBSCRIBE => (Len(p.topics) >= 1 /\ \A i \in 1..Len(p.topics) : RLen(p.topics[i]) <= 65535)
  /\ p.t = CONNECT => /\ p.ver \in {3, 4}
                      /\ RLen(p.cid) <= 65535 /\ RLen(p.user) <= 65535 /\ RLen(p.pass) <= 65535
                      /\ (RLen(p.cid) = 0 => p.clean)
                      /\ (RLen(p.pass) > 0 => RLen(p.user) > 0)
                      /\ (p.will => (p.wqos \in 0..2 /\ RLen(p.wtopic) \in 1..65535 /\ RLen(p.wpayload) <= 65535))

\* explicit-form packet -> run-form packet
PRuns(p) ==
  [p EXCEPT !.topic = ToRuns(@), !.payload = ToRuns(@), !.cid = ToRuns(@), !.wtopic = ToRuns(@), !.wpayload = ToRuns(@),
            !.user = ToRuns(@), !.pass = ToRuns(@), !.codes = ToRuns(@),
            !.subs = [i \in 1..Len(@) |-> [topic |-> ToRuns(@[i].topic), qos |-> @[i].qos]],
            !.topics = [i \in 1..Len(@) |-> ToRuns(@[i])]]
Enc(p) == Expand(EncR(PRuns(p)))

----------------------------------------------------------------------------
(* Decoder over explicit bytes.  Only the header-declared extent is looked at. *)

Fail == [ok |-> FALSE, n |-> 0, ext |-> 0, p |-> Blank]

\* variable length integer at position i (at most 4 bytes, L1: non-minimal forms accepted)
RECURSIVE VarAt(_, _, _, _, _)
VarAt(b, i, k, mult, acc) ==      \* k = bytes consumed so far
  IF k >= 4 \/ i > Len(b) THEN [ok |-> FALSE, v |-> 0, n |-> 0]
  ELSE IF b[i] < 128 THEN [ok |-> TRUE, v |-> acc + b[i] * mult, n |-> k + 1]
  ELSE VarAt(b, i + 1, k + 1, mult * 128, acc + (b[i] - 128) * mult)
ReadVarint(b, i) == VarAt(b, i, 0, 1, 0)

\* length-prefixed field of body x starting at (1-based) position i
ReadLP(x, i) ==
  IF i + 1 > Len(x) THEN [ok |-> FALSE, s |-> <<>>, nx |-> i]
  ELSE LET l == x[i] * 256 + x[i + 1] IN
       IF i + 1 + l > Len(x) THEN [ok |-> FALSE, s |-> <<>>, nx |-> i]
       ELSE [ok |-> TRUE, s |-> SubSeq(x, i + 2, i + 1 + l), nx |-> i + 2 + l]

RECURSIVE ReadSubs(_, _, _)
ReadSubs(x, i, acc) ==    \* -> [ok, list]
  IF i > Len(x) THEN [ok |-> Len(acc) >= 1, l |-> acc]
  ELSE LET f == ReadLP(x, i) IN
       IF ~f.ok \/ f.nx > Len(x) THEN [ok |-> FALSE, l |-> <<>>]
       ELSE IF x[f.nx] > 2 THEN [ok |-> FALSE, l |-> <<>>]
       ELSE ReadSubs(x, f.nx + 1, Append(acc, [topic |-> f.s, qos |-> x[f.nx]]))

RECURSIVE ReadTopics(_, _, _)
ReadTopics(x, i, acc) ==
  IF i > Len(x) THEN [ok |-> Len(acc) >= 1, l |-> acc]
  ELSE LET f == ReadLP(x, i) IN
       IF ~f.ok THEN [ok |-> FALSE, l |-> <<>>]
       ELSE ReadTopics(x, f.nx, Append(acc, f.s))

OK(p, used, hl, ext) == [ok |-> TRUE, n |-> hl + used, ext |-> ext, p |-> p]

DecConnect(x, hl, ext) ==
  LET nm == ReadLP(x, 1) IN
  IF ~nm.ok \/ nm.nx + 3 > Len(x) THEN Fail            \* version, flags, keep alive (2) must be there
  ELSE LET ver == x[nm.nx]  fl == x[nm.nx + 1]
           ka == x[nm.nx + 2] * 256 + x[nm.nx + 3]
           uflag == fl \div 128 = 1
           pflag == (fl \div 64) % 2 = 1
           wret  == (fl \div 32) % 2 = 1
           wqos  == (fl \div 8) % 4
           wflag == (fl \div 4) % 2 = 1
           clean == (fl \div 2) % 2 = 1
           cid == ReadLP(x, nm.nx + 4)
       IN
       IF ver \notin {3, 4} THEN Fail
       ELSE IF nm.s # (IF ver = 3 THEN NameMQIsdp ELSE NameMQTT) THEN Fail
       ELSE IF fl % 2 # 0 \/ wqos = 3 THEN Fail
       ELSE IF ~wflag /\ (wret \/ wqos # 0) THEN Fail
       ELSE IF pflag /\ ~uflag THEN Fail
       ELSE IF ~cid.ok THEN Fail
       ELSE IF Len(cid.s) = 0 /\ ~clean THEN Fail
       ELSE LET wt == IF wflag THEN ReadLP(x, cid.nx) ELSE [ok |-> TRUE, s |-> <<>>, nx |-> cid.nx]
                wp == IF wflag /\ wt.ok THEN ReadLP(x, wt.nx) ELSE [ok |-> wt.ok, s |-> <<>>, nx |-> wt.nx]
                us == IF uflag /\ wp.ok THEN ReadLP(x, wp.nx) ELSE [ok |-> wp.ok, s |-> <<>>, nx |-> wp.nx]
                pw == IF pflag /\ us.ok THEN ReadLP(x, us.nx) ELSE [ok |-> us.ok, s |-> <<>>, nx |-> us.nx]
            IN
            IF ~pw.ok THEN Fail
            ELSE IF wflag /\ Len(wt.s) = 0 THEN Fail     \* a will that could never be published
            ELSE OK([Blank EXCEPT !.t = CONNECT, !.ver = ver, !.ka = ka, !.clean = clean, !.cid = cid.s,
                                  !.will = wflag, !.wqos = wqos, !.wret = wret, !.wtopic = wt.s, !.wpayload = wp.s,
                                  !.user = us.s, !.pass = pw.s], pw.nx - 1, hl, ext)

DecBody(t, fl, x, hl, ext) ==
  CASE t = CONNECT -> IF fl # 0 THEN Fail ELSE DecConnect(x, hl, ext)
    [] t = CONNACK ->
         IF fl # 0 \/ Len(x) < 2 \/ x[1] > 1 \/ x[2] > 5 THEN Fail
         ELSE OK([Blank EXCEPT !.t = CONNACK, !.sp = (x[1] = 1), !.rc = x[2]], 2, hl, ext)
    [] t = PUBLISH ->
         LET qos == (fl \div 2) % 4  tp == ReadLP(x, 1) IN
         IF qos = 3 \/ ~tp.ok \/ Len(tp.s) = 0 THEN Fail
         ELSE IF qos > 0 /\ tp.nx + 1 > Len(x) THEN Fail
         ELSE LET id == IF qos > 0 THEN x[tp.nx] * 256 + x[tp.nx + 1] ELSE 0
                  ps == IF qos > 0 THEN tp.nx + 2 ELSE tp.nx IN
              IF qos > 0 /\ id = 0 THEN Fail
              ELSE OK([Blank EXCEPT !.t = PUBLISH, !.dup = (fl \div 8 = 1), !.qos = qos, !.ret = (fl % 2 = 1),
                                    !.id = id, !.topic = tp.s, !.payload = SubSeq(x, ps, Len(x))], Len(x), hl, ext)
    [] t \in Identified ->
         IF fl # DefaultFlags(t) \/ Len(x) # 2 \/ x[1] * 256 + x[2] = 0 THEN Fail
         ELSE OK([Blank EXCEPT !.t = t, !.id = x[1] * 256 + x[2]], 2, hl, ext)
    [] t = SUBSCRIBE ->
         IF fl # 2 \/ Len(x) < 2 \/ x[1] * 256 + x[2] = 0 THEN Fail
         ELSE LET r == ReadSubs(x, 3, <<>>) IN
              IF ~r.ok THEN Fail ELSE OK([Blank EXCEPT !.t = SUBSCRIBE, !.id = x[1] * 256 + x[2], !.subs = r.l], Len(x), hl, ext)
    [] t = SUBACK ->
         IF fl # 0 \/ Len(x) < 3 \/ x[1] * 256 + x[2] = 0 THEN Fail
         ELSE IF \E i \in 3..Len(x) : x[i] \notin {0, 1, 2, 128} THEN Fail
         ELSE OK([Blank EXCEPT !.t = SUBACK, !.id = x[1] * 256 + x[2], !.codes = SubSeq(x, 3, Len(x))], Len(x), hl, ext)
    [] t = UNSUBSCRIBE ->
         IF fl # 2 \/ Len(x) < 2 \/ x[1] * 256 + x[2] = 0 THEN Fail
         ELSE LET r == ReadTopics(x, 3, <<>>) IN
              IF ~r.ok THEN Fail ELSE OK([Blank EXCEPT !.t = UNSUBSCRIBE, !.id = x[1] * 256 + x[2], !.topics = r.l], Len(x), hl, ext)
    [] t \in Naked ->
         IF fl # 0 \/ Len(x) # 0 THEN Fail ELSE OK([Blank EXCEPT !.t = t], 0, hl, ext)

\* DecG(b, over): over = FALSE is the reference.  over = TRUE models the known deviation
\* "ConnectOverRead" (KNOWN_FINDINGS.txt): CONNECT fields are read from the whole buffer.
DecG(b, over) ==
  IF Len(b) < 2 THEN Fail
  ELSE LET t == b[1] \div 16  fl == b[1] % 16  vi == ReadVarint(b, 2) IN
       IF t \notin 1..14 \/ ~vi.ok THEN Fail
       ELSE IF 1 + vi.n + vi.v > Len(b) THEN Fail               \* the declared extent is not all there
       ELSE DecBody(t, fl, SubSeq(b, 2 + vi.n, IF over /\ t = CONNECT THEN Len(b) ELSE 1 + vi.n + vi.v), 1 + vi.n, 1 + vi.n + vi.v)
Dec(b) == DecG(b, FALSE)

\* detection (stream framing): total length and type from the first bytes
Detect(b) ==
  IF Len(b) < 2 THEN [ok |-> FALSE, len |-> 0, t |-> 0]
  ELSE LET vi == ReadVarint(b, 2) IN
       IF ~vi.ok THEN [ok |-> FALSE, len |-> 0, t |-> 0] ELSE [ok |-> TRUE, len |-> 1 + vi.n + vi.v, t |-> b[1] \div 16]

\* every application message the decoder admits can be encoded again for forwarding
Reencodable(p) ==
  /\ p.t = PUBLISH => Len(p.topic) >= 1
  /\ (p.t = CONNECT /\ p.will) => Len(p.wtopic) >= 1
=============================================================================
