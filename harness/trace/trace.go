// Package trace is the one global event log of a scenario. Every event gets
// its sequence number under the mutex that also protects the harness-owned
// links, so the log order agrees with the real order of every causal pair.
package trace

import (
	"encoding/json"
	"io"
	"sync"
	"time"
)

// Event is one log line.
type Event map[string]interface{}

// Log is a scenario's event log.
type Log struct {
	Mu     sync.Mutex
	Cond   *sync.Cond
	events []Event
	last   time.Time
	start  time.Time
	Tr     int
}

// New returns an empty log for trace number tr.
func New(tr int) *Log {
	l := &Log{Tr: tr, last: time.Now()}
	l.Cond = sync.NewCond(&l.Mu)
	return l
}

// Add appends an event; the caller must NOT hold Mu.
func (l *Log) Add(ev string, kv ...interface{}) {
	l.Mu.Lock()
	l.AddLocked(ev, kv...)
	l.Mu.Unlock()
}

// AddLocked appends an event; the caller holds Mu.
func (l *Log) AddLocked(ev string, kv ...interface{}) {
	if l.start.IsZero() {
		l.start = time.Now()
	}
	// ts: milliseconds since the first event of this log (used only for "not earlier than" checks of time-outs, with generous slack)
	e := Event{"ev": ev, "tr": l.Tr, "ts": int(time.Since(l.start) / time.Millisecond)}
	for i := 0; i+1 < len(kv); i += 2 {
		e[kv[i].(string)] = kv[i+1]
	}
	l.events = append(l.events, e)
	l.last = time.Now()
	l.Cond.Broadcast()
}

// Idle reports how long no event has been logged.
func (l *Log) Idle() time.Duration {
	l.Mu.Lock()
	defer l.Mu.Unlock()
	return time.Since(l.last)
}

// Len returns the number of events.
func (l *Log) Len() int {
	l.Mu.Lock()
	defer l.Mu.Unlock()
	return len(l.events)
}

// WaitIdle blocks until no event has been logged for d (at most max).
func (l *Log) WaitIdle(d, max time.Duration) {
	deadline := time.Now().Add(max)
	for time.Now().Before(deadline) {
		idle := l.Idle()
		if idle >= d {
			return
		}
		time.Sleep(d - idle + time.Millisecond)
	}
}

// Events returns a copy of the events logged so far.
func (l *Log) Events() []Event {
	l.Mu.Lock()
	defer l.Mu.Unlock()
	return append([]Event{}, l.events...)
}

// Write writes the log as ndjson with sequence numbers.
func (l *Log) Write(w io.Writer) error {
	enc := json.NewEncoder(w)
	for i, e := range l.Events() {
		e["seq"] = i + 1
		if err := enc.Encode(e); err != nil {
			return err
		}
	}
	return nil
}
