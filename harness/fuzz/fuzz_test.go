package fuzz

// Coverage-guided fuzzing of the decoders (C02, thorough tier). The corpus it builds is
// afterwards fed through `drive decode-record` and judged by TLC against MQTTCodec.tla.

import (
	"bytes"
	"testing"

	"github.com/256dpi/gomqtt/packet"
)

func FuzzDecode(f *testing.F) {
	f.Add([]byte{0x30, 0x03, 0x00, 0x01, 0x61})
	f.Add([]byte{0x10, 0x0c, 0, 4, 'M', 'Q', 'T', 'T', 4, 2, 0, 0, 0, 0})
	f.Add([]byte{0x82, 0x06, 0, 1, 0, 1, 'a', 1})
	f.Fuzz(func(t *testing.T, data []byte) {
		_, mt := packet.DetectPacket(data)
		pkt, err := mt.New()
		if err == nil {
			n, _ := pkt.Decode(data)
			if n > len(data) {
				t.Fatalf("consumed %d of %d", n, len(data))
			}
		}
		_, _ = packet.NewDecoder(bytes.NewReader(data)).Read()
	})
}
