-------------------------- MODULE MQTTCodecVectors --------------------------
(***************************************************************************)
(* C01, spec -> code.  TLC enumerates the grid of well-formed packets the   *)
(* property quantifies over and writes, for each, the wire image mandated  *)
(* by the reference codec (as runs) and its length.  The Go replayer builds *)
(* each packet with the library and compares Len(), Encode() and Decode().  *)
(* Grid: every type; every flag combination; ids {1,2,255,256,65534,65535};  *)
(* sizes solved here so that the remaining length is B-1, B, B+1 for every  *)
(* boundary B in {0,1,127,128,16383,16384,2097151,2097152} the type can     *)
(* reach; field lengths 0, 1, 65534, 65535.  Big == TRUE adds the maximum   *)
(* remaining length 268 435 455.                                            *)
(***************************************************************************)
EXTENDS MQTTCodec, Json, SequencesExt

Big == @@BIG@@

Fill(n, b) == IF n = 0 THEN <<>> ELSE <<[n |-> n, b |-> b]>>
Ids == {1, 2, 255, 256, 65534, 65535}
Bounds == {0, 1, 127, 128, 16383, 16384, 2097151, 2097152}
Targets == {x \in UNION {{B - 1, B, B + 1} : B \in Bounds \ {0}} \cup {0, 1} : TRUE} \cup (IF Big THEN {MaxVarint} ELSE {})
FieldLens == {0, 1, 65534, 65535}
BOOL == {TRUE, FALSE}

\* ---- PUBLISH
Pub(dup, qos, ret, id, tl, pl) ==
  [Blank EXCEPT !.t = PUBLISH, !.dup = dup, !.qos = qos, !.ret = ret, !.id = IF qos > 0 THEN id ELSE 0,
                !.topic = Fill(tl, 116), !.payload = IF pl > 1 THEN B1(1) \o Fill(pl - 2, 170) \o B1(255) ELSE Fill(pl, 7)]
PubFlags == {Pub(d, q, r, i, 3, 2) : d \in BOOL, q \in 0..2, r \in BOOL, i \in Ids}
PubFields == {Pub(FALSE, q, FALSE, 7, tl, pl) : q \in 0..2, tl \in FieldLens \ {0}, pl \in {0, 1, 65534, 65535, 65536}}
PubBounds == {Pub(d, q, FALSE, 65535, 1, T - 3 - (IF q > 0 THEN 2 ELSE 0)) :
                d \in BOOL, q \in 0..2, T \in {x \in Targets : x >= 5}}

\* ---- CONNECT
Conn(ver, clean, ka, cidl, will, wq, wr, wtl, wpl, ul, pwl) ==
  [Blank EXCEPT !.t = CONNECT, !.ver = ver, !.clean = clean, !.ka = ka, !.cid = Fill(cidl, 99), !.will = will,
                !.wqos = IF will THEN wq ELSE 0, !.wret = will /\ wr,
                !.wtopic = IF will THEN Fill(wtl, 119) ELSE <<>>, !.wpayload = IF will THEN Fill(wpl, 0) ELSE <<>>,
                !.user = Fill(ul, 117), !.pass = Fill(pwl, 112)]
ConnFlagsRaw == {Conn(v, c, 30, 2, w, wq, wr, 2, 1, ul, pwl) :
                v \in {3, 4}, c \in BOOL, w \in BOOL, wq \in 0..2, wr \in BOOL, ul \in {0, 3}, pwl \in {0, 2}}
ConnFlags == {p \in ConnFlagsRaw : RLen(p.pass) > 0 => RLen(p.user) > 0}
ConnFields ==
     {Conn(4, TRUE, ka, cl, FALSE, 0, FALSE, 0, 0, 0, 0) : ka \in {0, 1, 255, 256, 65535}, cl \in FieldLens}
  \cup {Conn(4, FALSE, 10, 1, TRUE, 1, TRUE, wtl, wpl, 0, 0) : wtl \in FieldLens \ {0}, wpl \in FieldLens}
  \cup {Conn(4, TRUE, 10, 0, FALSE, 0, FALSE, 0, 0, ul, pl) : ul \in FieldLens \ {0}, pl \in FieldLens}
  \cup {Conn(4, FALSE, 10, 65535, TRUE, 2, FALSE, 65535, 65535, 65535, 65535)}
\* remaining length of a v4 CONNECT with only a client id is 12 + len(cid)
ConnBounds == {Conn(4, FALSE, 60, T - 12, FALSE, 0, FALSE, 0, 0, 0, 0) : T \in {x \in Targets : x >= 13 /\ x <= 12 + 65535}}
           \cup {Conn(3, TRUE, 60, T - 14 - 5, FALSE, 0, FALSE, 0, 0, 3, 0) : T \in {x \in Targets : x >= 19 /\ x <= 19 + 65535}}

\* ---- SUBSCRIBE / UNSUBSCRIBE: k-1 entries of 60000 bytes and one that makes the remaining length T
SubList(T) ==   \* remaining length = 2 + sum (2 + len + 1)
  LET k1 == (T - 5) \div 60003  last == T - 2 - k1 * 60003 - 3 IN
  [i \in 1..(k1 + 1) |-> IF i <= k1 THEN [topic |-> Fill(60000, 97 + (i % 3)), qos |-> i % 3] ELSE [topic |-> Fill(last, 122), qos |-> last % 3]]
Sub(id, l) == [Blank EXCEPT !.t = SUBSCRIBE, !.id = id, !.subs = l]
SubGrid ==
     {Sub(i, <<[topic |-> Fill(2, 97), qos |-> q]>>) : i \in Ids, q \in 0..2}
  \cup {Sub(9, <<[topic |-> Fill(l1, 97), qos |-> 0], [topic |-> Fill(l2, 98), qos |-> 1], [topic |-> Fill(1, 35), qos |-> 2]>>) : l1 \in FieldLens, l2 \in FieldLens}
  \cup {Sub(258, SubList(T)) : T \in {x \in Targets : x >= 5}}
UnsubList(T) ==  \* remaining length = 2 + sum (2 + len)
  LET k1 == (T - 4) \div 60002  last == T - 2 - k1 * 60002 - 2 IN
  [i \in 1..(k1 + 1) |-> IF i <= k1 THEN Fill(60000, 97 + (i % 3)) ELSE Fill(last, 122)]
Unsub(id, l) == [Blank EXCEPT !.t = UNSUBSCRIBE, !.id = id, !.topics = l]
UnsubGrid ==
     {Unsub(i, <<Fill(2, 97)>>) : i \in Ids}
  \cup {Unsub(9, <<Fill(l1, 97), Fill(l2, 98), Fill(1, 43)>>) : l1 \in FieldLens, l2 \in FieldLens}
  \cup {Unsub(258, UnsubList(T)) : T \in {x \in Targets : x >= 4}}

\* ---- SUBACK: remaining length = 2 + number of codes
Suback(id, codes) == [Blank EXCEPT !.t = SUBACK, !.id = id, !.codes = codes]
SubackGrid ==
     {Suback(i, B1(c)) : i \in Ids, c \in {0, 1, 2, 128}}
  \cup {Suback(77, B1(0) \o B1(1) \o B1(2) \o B1(128))}
  \cup {Suback(513, B1(128) \o Fill(T - 4, c) \o B1(2)) : c \in {0, 1}, T \in {x \in Targets : x >= 4}}

\* ---- fixed-size types
ConnackGrid == {[Blank EXCEPT !.t = CONNACK, !.sp = s, !.rc = c] : s \in BOOL, c \in 0..5}
IdentGrid   == {[Blank EXCEPT !.t = t, !.id = i] : t \in Identified, i \in Ids}
NakedGrid   == {[Blank EXCEPT !.t = t] : t \in Naked}

Vectors == PubFlags \cup PubFields \cup PubBounds \cup ConnFlags \cup ConnFields \cup ConnBounds
           \cup SubGrid \cup UnsubGrid \cup SubackGrid \cup ConnackGrid \cup IdentGrid \cup NakedGrid

ASSUME \A p \in Vectors : WellFormedR(p)
\* every boundary that a type can reach is hit exactly (remaining length = B-1, B, B+1)
ASSUME \A T \in {x \in Targets : x >= 5} : \E p \in PubBounds : RemLenR(p) = T
ASSUME \A T \in {x \in Targets : x >= 5} : RemLenR(Sub(258, SubList(T))) = T
ASSUME \A T \in {x \in Targets : x >= 4} : RemLenR(Unsub(258, UnsubList(T))) = T
ASSUME \A T \in {x \in Targets : x >= 4} : RemLenR(Suback(513, B1(128) \o Fill(T - 4, 1) \o B1(2))) = T
ASSUME \A T \in {x \in Targets : x >= 13 /\ x <= 12 + 65535} : \E p \in ConnBounds : RemLenR(p) = T

Row(p) == [p |-> p, wire |-> EncR(p), len |-> PLenR(p), rl |-> RemLenR(p)]
ASSUME ndJsonSerialize("@@OUT@@/vectors.ndjson", SetToSeq({Row(p) : p \in Vectors}))
ASSUME PrintT(<<"VECTORS", Cardinality(Vectors)>>)
=============================================================================
