----------------------------- MODULE TopicJudge -----------------------------
(* C04, code -> spec: answers recorded from the real topic.Tree for random stored sets
   and queries over long alphabets (multi-byte UTF-8, depth <= 12) are judged by the
   reference matcher over raw bytes (level splitting is decided here, not in the harness).
   Record: [dir |-> "match"|"search", stored |-> <<byte seqs>>, q |-> byte seq, got |-> <<indices>>] *)
EXTENDS TopicMatch, Json

Recs == ndJsonDeserialize("@@TRACE@@")

Want(r) ==
  {j \in 1..Len(r.stored) :
     IF r.dir = "match" THEN MatchesB(Levels(r.stored[j]), Levels(r.q))
                        ELSE MatchesB(Levels(r.q), Levels(r.stored[j]))}
Judge(r) ==
  LET got == {r.got[k] : k \in 1..Len(r.got)} IN
  IF got = Want(r) THEN TRUE
  ELSE PrintT(<<"DISAGREE", ToJson([i |-> r.i, dir |-> r.dir, want |-> Want(r), got |-> got])>>)

ASSUME \A i \in 1..Len(Recs) : Judge(Recs[i])
ASSUME PrintT(<<"JUDGED", Len(Recs), Cardinality({i \in 1..Len(Recs) : Want(Recs[i]) # {}})>>)
=============================================================================
