// Package util holds small helpers shared by the replayers and drivers.
package util

import (
	"bufio"
	"encoding/json"
	"fmt"
	"os"
	"sync"
)

// ReadLines calls fn for every line of an ndjson file.
func ReadLines(path string, fn func(line []byte) error) error {
	f, err := os.Open(path)
	if err != nil {
		return err
	}
	defer f.Close()
	sc := bufio.NewScanner(f)
	sc.Buffer(make([]byte, 1<<20), 1<<28)
	for sc.Scan() {
		if len(sc.Bytes()) == 0 {
			continue
		}
		if err := fn(sc.Bytes()); err != nil {
			return err
		}
	}
	return sc.Err()
}

// Report is the JSON summary every replayer prints on stdout (last line).
type Report struct {
	mu         sync.Mutex
	Cases      int                    `json:"cases"`
	Mismatches int                    `json:"mismatches"`
	First      []string               `json:"first"`
	Extra      map[string]interface{} `json:"extra,omitempty"`
	Samples    []interface{}          `json:"samples,omitempty"`
}

// Mismatch records a disagreement between the real code and the specification.
func (r *Report) Mismatch(format string, a ...interface{}) {
	r.mu.Lock()
	defer r.mu.Unlock()
	r.Mismatches++
	if len(r.First) < 10 {
		r.First = append(r.First, fmt.Sprintf(format, a...))
	}
}

// Case counts one evaluated case.
func (r *Report) Case() {
	r.mu.Lock()
	r.Cases++
	r.mu.Unlock()
}

// Set stores an extra measured value.
func (r *Report) Set(k string, v interface{}) {
	r.mu.Lock()
	if r.Extra == nil {
		r.Extra = map[string]interface{}{}
	}
	r.Extra[k] = v
	r.mu.Unlock()
}

// Sample keeps up to n sample cases.
func (r *Report) Sample(v interface{}, n int) {
	r.mu.Lock()
	if len(r.Samples) < n {
		r.Samples = append(r.Samples, v)
	}
	r.mu.Unlock()
}

// Print writes the report as one JSON line prefixed by REPORT.
func (r *Report) Print() {
	b, _ := json.Marshal(r)
	fmt.Printf("REPORT %s\n", b)
}
