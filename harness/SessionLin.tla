----------------------------- MODULE SessionLin -----------------------------
(***************************************************************************)
(* Linearisability of concurrent histories recorded from a real            *)
(* session.MemorySession against Session.tla (C18, concurrent half).        *)
(* Events: begin(next) | inv(t, op, args) | ret(t, op, result) | end.      *)
(* Lin(t) is a silent step between a thread's inv and ret at which the     *)
(* operation takes effect on the reference state and its result is fixed.  *)
(* A history is accepted iff all of its events can be consumed.            *)
(***************************************************************************)
EXTENDS Session

Trace == ndJsonDeserialize("@@TRACE@@")
Threads == 1..16

VARIABLES l,      \* next event to consume
          pend    \* [Threads -> [ph: "idle"|"inv"|"done", ...]]

lvars == <<next, store, steps, lastop, l, pend>>
Idle == [ph |-> "idle"]

E == Trace[l]
IsEvent(e) == l <= Len(Trace) /\ Trace[l].ev = e /\ l' = l + 1

LInit ==
  /\ l = 1
  /\ next = 1
  /\ store = Empty
  /\ steps = 0
  /\ lastop = [op |-> "init"]
  /\ pend = [t \in Threads |-> Idle]

Begin ==
  /\ IsEvent("begin")
  /\ next' = E.next
  /\ store' = Empty
  /\ pend' = [t \in Threads |-> Idle]
  /\ UNCHANGED <<steps, lastop>>

Inv ==
  /\ IsEvent("inv")
  /\ pend[E.t].ph = "idle"
  /\ pend' = [pend EXCEPT ![E.t] = [ph |-> "inv", op |-> E.op, d |-> E.d, k |-> E.k, id |-> E.id]]
  /\ UNCHANGED <<next, store, steps, lastop>>

Lin(t) ==
  /\ pend[t].ph = "inv"
  /\ UNCHANGED <<l, steps, lastop>>
  /\ LET o == pend[t] IN
     CASE o.op = "nextid" ->
            /\ next' = Succ(next)
            /\ store' = store
            /\ pend' = [pend EXCEPT ![t] = [ph |-> "done", op |-> o.op, resn |-> IdOf(next)]]
       [] o.op = "save" ->
            /\ store' = SaveF(store, o.d, o.k, o.id)
            /\ next' = next
            /\ pend' = [pend EXCEPT ![t] = [ph |-> "done", op |-> o.op]]
       [] o.op = "delete" ->
            /\ store' = DeleteF(store, o.d, o.id)
            /\ next' = next
            /\ pend' = [pend EXCEPT ![t] = [ph |-> "done", op |-> o.op]]
       [] o.op = "lookup" ->
            /\ UNCHANGED <<next, store>>
            /\ pend' = [pend EXCEPT ![t] = [ph |-> "done", op |-> o.op, res |-> LookupF(store, o.d, o.id)]]
       [] o.op = "all" ->
            /\ UNCHANGED <<next, store>>
            /\ pend' = [pend EXCEPT ![t] = [ph |-> "done", op |-> o.op, resl |-> AllF(store, o.d)]]

Ret ==
  /\ IsEvent("ret")
  /\ pend[E.t].ph = "done"
  /\ pend[E.t].op = E.op
  /\ CASE E.op = "nextid" -> pend[E.t].resn = E.resn
       [] E.op = "lookup" -> pend[E.t].res = E.res
       [] E.op = "all"    -> pend[E.t].resl = {E.resl[i] : i \in 1..Len(E.resl)}
       [] OTHER -> TRUE
  /\ pend' = [pend EXCEPT ![E.t] = Idle]
  /\ UNCHANGED <<next, store, steps, lastop>>

End ==
  /\ IsEvent("end")
  /\ \A t \in Threads : pend[t].ph = "idle"
  /\ PrintT(<<"ACCEPTED", E.h>>)
  /\ UNCHANGED <<next, store, steps, lastop, pend>>

LNext == Begin \/ Inv \/ Ret \/ End \/ \E t \in Threads : Lin(t)
LSpec == LInit /\ [][LNext]_lvars

HW == IF l > TLCGet(1) THEN TLCSet(1, l) ELSE TRUE
ASSUME TLCSet(1, 0)
Accepted ==
  IF TLCGet(1) = Len(Trace) + 1 THEN TRUE
  ELSE PrintT(<<"REJECTED-AT", TLCGet(1), ToJson(Trace[TLCGet(1)])>>) /\ FALSE
=============================================================================
