---------------------------- MODULE TopicTreeLin ----------------------------
(***************************************************************************)
(* Linearisability of concurrent histories recorded from a real topic.Tree *)
(* against TopicTree.tla (C05): every query result must equal the map's     *)
(* answer at some instant between the query's call and its return.          *)
(***************************************************************************)
EXTENDS TopicTree

Trace == ndJsonDeserialize("@@TRACE@@")
Threads == 1..16

VARIABLES l, pend
lvars == <<tree, lastop, l, pend>>
Idle == [ph |-> "idle"]
E == Trace[l]
IsEvent(e) == l <= Len(Trace) /\ Trace[l].ev = e /\ l' = l + 1
SeqSet(s) == {s[i] : i \in 1..Len(s)}

LInit ==
  /\ l = 1
  /\ tree = EmptyTree
  /\ lastop = [op |-> "init"]
  /\ pend = [t \in Threads |-> Idle]

Begin ==
  /\ IsEvent("begin")
  /\ tree' = EmptyTree
  /\ pend' = [t \in Threads |-> Idle]
  /\ UNCHANGED lastop

Inv ==
  /\ IsEvent("inv")
  /\ pend[E.th].ph = "idle"
  /\ pend' = [pend EXCEPT ![E.th] = [ph |-> "inv", op |-> E.op, t |-> E.t, v |-> E.v]]
  /\ UNCHANGED <<tree, lastop>>

Done(t, o, rs, rv) == pend' = [pend EXCEPT ![t] = [ph |-> "done", op |-> o.op, rs |-> rs, rv |-> rv]]

Lin(t) ==
  /\ pend[t].ph = "inv"
  /\ UNCHANGED <<l, lastop>>
  /\ LET o == pend[t] IN
     CASE o.op = "add"    -> tree' = AddF(tree, o.t, o.v)    /\ Done(t, o, {}, {0})
       [] o.op = "set"    -> tree' = SetF(tree, o.t, o.v)    /\ Done(t, o, {}, {0})
       [] o.op = "remove" -> tree' = RemoveF(tree, o.t, o.v) /\ Done(t, o, {}, {0})
       [] o.op = "empty"  -> tree' = EmptyF(tree, o.t)       /\ Done(t, o, {}, {0})
       [] o.op = "clear"  -> tree' = ClearF(tree, o.v)       /\ Done(t, o, {}, {0})
       [] o.op = "get"    -> tree' = tree /\ Done(t, o, GetQ(tree, o.t), {0})
       [] o.op = "match"  -> tree' = tree /\ Done(t, o, MatchQ(tree, o.t), {0})
       [] o.op = "search" -> tree' = tree /\ Done(t, o, SearchQ(tree, o.t), {0})
       [] o.op = "all"    -> tree' = tree /\ Done(t, o, AllQ(tree), {0})
       [] o.op = "count"  -> tree' = tree /\ Done(t, o, {}, {CountQ(tree)})
       \* first-variants: any element of the full answer, 0 (nil) iff it is empty
       [] o.op = "matchfirst"  -> tree' = tree /\ Done(t, o, {}, IF MatchQ(tree, o.t) = {} THEN {0} ELSE MatchQ(tree, o.t))
       [] o.op = "searchfirst" -> tree' = tree /\ Done(t, o, {}, IF SearchQ(tree, o.t) = {} THEN {0} ELSE SearchQ(tree, o.t))

Ret ==
  /\ IsEvent("ret")
  /\ pend[E.th].ph = "done"
  /\ pend[E.th].op = E.op
  /\ ~E.dup
  /\ E.op \in {"get", "match", "search", "all"} => pend[E.th].rs = SeqSet(E.res)
  /\ E.op \in {"count", "matchfirst", "searchfirst"} => E.resv \in pend[E.th].rv
  /\ pend' = [pend EXCEPT ![E.th] = Idle]
  /\ UNCHANGED <<tree, lastop>>

End ==
  /\ IsEvent("end")
  /\ \A t \in Threads : pend[t].ph = "idle"
  /\ PrintT(<<"ACCEPTED", E.h>>)
  /\ UNCHANGED <<tree, lastop, pend>>

LNext == Begin \/ Inv \/ Ret \/ End \/ \E t \in Threads : Lin(t)
LSpec == LInit /\ [][LNext]_lvars

HW == IF l > TLCGet(1) THEN TLCSet(1, l) ELSE TRUE
ASSUME TLCSet(1, 0)
Accepted ==
  IF TLCGet(1) = Len(Trace) + 1 THEN TRUE
  ELSE PrintT(<<"REJECTED-AT", TLCGet(1), ToJson(Trace[TLCGet(1)])>>) /\ FALSE
=============================================================================
