// Package wrap holds the observing / fault-injecting wrappers around gomqtt's
// own seams: broker.Backend (around the real MemoryBackend) and the session
// hook (build tag verif).
package wrap

import (
	"errors"
	"reflect"
	"sync"
	"time"

	"github.com/256dpi/gomqtt/broker"
	"github.com/256dpi/gomqtt/packet"
	"github.com/256dpi/gomqtt/session"

	"verif/harness/link"
	"verif/harness/trace"
)

// ErrInjected is returned by injected backend failures.
var ErrInjected = errors.New("injected backend failure")

// Backend wraps the real MemoryBackend.
type Backend struct {
	Inner *broker.MemoryBackend
	Tr    *trace.Log

	// AckMode for Publish acks: "sync" (default), "late" (invoked from another goroutine after
	// Publish returned and AckDelay elapsed), "never".
	AckMode  string
	AckDelay time.Duration
	// Fail makes the n-th call (1-based) of a site ("auth","setup","restore","sub","unsub","pub","deq","term") return an error.
	Fail map[string]int
	// HoldTerm delays the inner Terminate (widens the window in which a session's client is closing).
	HoldTerm time.Duration
	// HoldPub delays the inner Publish after pub.call was logged.
	HoldPub time.Duration

	mu     sync.Mutex
	ackMu  sync.Mutex
	calls  map[string]int
	stores map[interface{}]storeName
	wg     sync.WaitGroup
}

type storeName struct {
	sess string
	dir  string
}

// NewBackend wraps inner and installs the session hook.
func NewBackend(inner *broker.MemoryBackend, log *trace.Log) *Backend {
	b := &Backend{Inner: inner, Tr: log, calls: map[string]int{}, stores: map[interface{}]storeName{}}
	inner.Logger = b.logger
	session.VerifHook = b.hook
	return b
}

// Wait waits for late acks.
func (b *Backend) Wait() { b.wg.Wait() }

func connName(c *broker.Client) string {
	if lc, ok := c.Conn().(link.Conn); ok {
		return lc.L.Name
	}
	return "?"
}

func (b *Backend) fail(site string) bool {
	b.mu.Lock()
	defer b.mu.Unlock()
	b.calls[site]++
	return b.Fail != nil && b.Fail[site] == b.calls[site]
}

func errStr(err error) string {
	if err == nil {
		return ""
	}
	return err.Error()
}

// hook receives PacketStore / IDCounter operations under the object's own lock.
func (b *Backend) hook(obj interface{}, op string, id uint16, pkt interface{}) {
	b.mu.Lock()
	n, ok := b.stores[obj]
	b.mu.Unlock()
	if !ok {
		return
	}
	switch op {
	case "all":
		list := []interface{}{}
		for _, p := range pkt.([]packet.Generic) {
			list = append(list, link.PktRec(p))
		}
		b.Tr.Add("sess.all", "s", n.sess, "d", n.dir, "list", list)
	case "nextid":
		b.Tr.Add("sess.nextid", "s", n.sess, "id", int(id))
	case "save", "lookup":
		var g packet.Generic
		if pkt != nil {
			g, _ = pkt.(packet.Generic)
		}
		if g != nil && reflect.ValueOf(g).IsNil() {
			g = nil
		}
		b.Tr.Add("sess."+op, "s", n.sess, "d", n.dir, "id", int(id), "pkt", link.PktRec(g))
	default:
		b.Tr.Add("sess."+op, "s", n.sess, "d", n.dir, "id", int(id))
	}
}

func (b *Backend) register(sess broker.Session, key string) {
	v := reflect.ValueOf(sess)
	if v.Kind() != reflect.Ptr || v.IsNil() {
		return
	}
	f := v.Elem().FieldByName("MemorySession")
	if !f.IsValid() || f.IsNil() {
		return
	}
	ms, ok := f.Interface().(*session.MemorySession)
	if !ok {
		return
	}
	b.mu.Lock()
	defer b.mu.Unlock()
	if _, ok := b.stores[ms.Incoming]; !ok {
		b.stores[ms.Incoming] = storeName{key, "in"}
		b.stores[ms.Outgoing] = storeName{key, "out"}
		b.stores[ms.Counter] = storeName{key, "ctr"}
	}
}

// SessKey names the session a connection gets: the client id for persistent sessions, the connection otherwise.
func SessKey(conn, id string, clean bool) string {
	if id != "" && !clean {
		return "s:" + id
	}
	return "t:" + conn
}

// Authenticate implements broker.Backend.
func (b *Backend) Authenticate(c *broker.Client, user, password string) (bool, error) {
	n := connName(c)
	b.Tr.Add("auth.call", "c", n, "user", user)
	if b.fail("auth") {
		b.Tr.Add("auth.ret", "c", n, "ok", false, "err", ErrInjected.Error())
		return false, ErrInjected
	}
	ok, err := b.Inner.Authenticate(c, user, password)
	b.Tr.Add("auth.ret", "c", n, "ok", ok, "err", errStr(err))
	return ok, err
}

// Setup implements broker.Backend.
func (b *Backend) Setup(c *broker.Client, id string, clean bool) (broker.Session, bool, error) {
	n := connName(c)
	b.Tr.Add("setup.call", "c", n, "cid", id, "clean", clean)
	if b.fail("setup") {
		b.Tr.Add("setup.ret", "c", n, "resumed", false, "err", ErrInjected.Error(), "s", "")
		return nil, false, ErrInjected
	}
	s, resumed, err := b.Inner.Setup(c, id, clean)
	key := SessKey(n, id, clean)
	if err == nil && s != nil {
		b.register(s, key)
	}
	b.Tr.Add("setup.ret", "c", n, "resumed", resumed, "err", errStr(err), "s", key)
	return s, resumed, err
}

// Restore implements broker.Backend.
func (b *Backend) Restore(c *broker.Client) error {
	n := connName(c)
	if b.fail("restore") {
		b.Tr.Add("restore", "c", n, "err", ErrInjected.Error())
		return ErrInjected
	}
	err := b.Inner.Restore(c)
	b.Tr.Add("restore", "c", n, "err", errStr(err))
	return err
}

// Subscribe implements broker.Backend.
func (b *Backend) Subscribe(c *broker.Client, subs []packet.Subscription, ack broker.Ack) error {
	n := connName(c)
	list := []interface{}{}
	for _, s := range subs {
		list = append(list, map[string]interface{}{"f": splitTopic(s.Topic), "q": int(s.QOS)})
	}
	b.Tr.Add("sub.call", "c", n, "subs", list)
	if b.fail("sub") {
		b.Tr.Add("sub.ret", "c", n, "err", ErrInjected.Error())
		return ErrInjected
	}
	err := b.Inner.Subscribe(c, subs, func() {
		b.Tr.Add("sub.ack", "c", n)
		if ack != nil {
			ack()
		}
	})
	b.Tr.Add("sub.ret", "c", n, "err", errStr(err))
	return err
}

// Unsubscribe implements broker.Backend.
func (b *Backend) Unsubscribe(c *broker.Client, topics []string, ack broker.Ack) error {
	n := connName(c)
	list := []interface{}{}
	for _, t := range topics {
		list = append(list, splitTopic(t))
	}
	b.Tr.Add("unsub.call", "c", n, "topics", list)
	if b.fail("unsub") {
		b.Tr.Add("unsub.ret", "c", n, "err", ErrInjected.Error())
		return ErrInjected
	}
	err := b.Inner.Unsubscribe(c, topics, func() {
		b.Tr.Add("unsub.ack", "c", n)
		if ack != nil {
			ack()
		}
	})
	b.Tr.Add("unsub.ret", "c", n, "err", errStr(err))
	return err
}

// Publish implements broker.Backend.
func (b *Backend) Publish(c *broker.Client, msg *packet.Message, ack broker.Ack) error {
	n := connName(c)
	b.Tr.Add("pub.call", "c", n, "msg", link.MsgRec(msg), "hasack", ack != nil)
	if b.fail("pub") {
		b.Tr.Add("pub.ret", "c", n, "err", ErrInjected.Error(), "injected", true)
		return ErrInjected
	}
	if b.HoldPub > 0 {
		time.Sleep(b.HoldPub)
	}
	var inner broker.Ack
	acked := false
	tag, _ := link.MsgRec(msg)["m"].(string)
	if ack != nil {
		switch b.AckMode {
		case "late", "never":
			inner = func() { acked = true }
		default:
			inner = func() {
				b.Tr.Add("pub.ack", "c", n, "m", tag)
				ack()
			}
		}
	}
	err := b.Inner.Publish(c, msg, inner)
	b.Tr.Add("pub.ret", "c", n, "err", errStr(err), "injected", false)
	if ack != nil && acked && b.AckMode == "late" {
		b.wg.Add(1)
		go func() {
			defer b.wg.Done()
			time.Sleep(b.AckDelay)
			// log entry and invocation form one step, so that concurrent late acks are logged in the order they take effect
			b.ackMu.Lock()
			b.Tr.Add("pub.ack", "c", n, "m", tag)
			ack()
			b.ackMu.Unlock()
		}()
	}
	return err
}

// Dequeue implements broker.Backend.
func (b *Backend) Dequeue(c *broker.Client) (*packet.Message, broker.Ack, error) {
	n := connName(c)
	b.Tr.Add("deq.call", "c", n)
	if b.fail("deq") {
		b.Tr.Add("deq.ret", "c", n, "nil", true, "msg", link.NoMsg(), "err", ErrInjected.Error())
		return nil, nil, ErrInjected
	}
	msg, ack, err := b.Inner.Dequeue(c)
	if msg != nil {
		b.Tr.Add("deq.ret", "c", n, "nil", false, "msg", link.MsgRec(msg), "err", errStr(err))
	} else {
		b.Tr.Add("deq.ret", "c", n, "nil", true, "msg", link.NoMsg(), "err", errStr(err))
	}
	return msg, ack, err
}

// Terminate implements broker.Backend.
func (b *Backend) Terminate(c *broker.Client) (err error) {
	n := connName(c)
	b.Tr.Add("term.call", "c", n)
	if b.HoldTerm > 0 {
		time.Sleep(b.HoldTerm)
	}
	if b.fail("term") {
		b.Tr.Add("term.ret", "c", n, "err", ErrInjected.Error())
		return ErrInjected
	}
	err = b.Inner.Terminate(c)
	b.Tr.Add("term.ret", "c", n, "err", errStr(err))
	return err
}

// Log implements broker.Backend.
func (b *Backend) Log(event broker.LogEvent, c *broker.Client, pkt packet.Generic, msg *packet.Message, err error) {
	b.Inner.Log(event, c, pkt, msg, err)
}

func (b *Backend) logger(event broker.LogEvent, c *broker.Client, pkt packet.Generic, msg *packet.Message, err error) {
	switch event {
	case broker.TransportError, broker.SessionError, broker.BackendError, broker.ClientError:
		b.Tr.Add("die", "c", connName(c), "class", string(event), "err", errStr(err))
	case broker.LostConnection:
		b.Tr.Add("closed", "c", connName(c))
	case broker.ClientDisconnected:
		b.Tr.Add("disconnected", "c", connName(c))
	case broker.NewConnection:
		b.Tr.Add("newconn", "c", connName(c))
	}
}

func splitTopic(t string) []string {
	out := []string{}
	cur := ""
	for i := 0; i < len(t); i++ {
		if t[i] == '/' {
			out = append(out, cur)
			cur = ""
		} else {
			cur += string(t[i])
		}
	}
	return append(out, cur)
}
