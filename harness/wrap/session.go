package wrap

import (
	"errors"
	"sync"

	"github.com/256dpi/gomqtt/packet"
	"github.com/256dpi/gomqtt/session"

	"verif/harness/link"
	"verif/harness/trace"
)

// ErrSession is returned by injected session failures.
var ErrSession = errors.New("injected session failure")

// Session wraps a client-side session (client.Session interface, hook-free): operation and log
// entry form one step under the wrapper's mutex; operations can be made to fail; NextID doubles
// as a scheduler gate (it sits between the state check and the future registration of the API).
type Session struct {
	Inner *session.MemorySession
	Tr    *trace.Log
	Name  string

	mu    sync.Mutex
	calls map[string]int
	// Fail makes the n-th call of an operation ("nextid" never fails; "save","lookup","delete","all","reset") return an error.
	Fail map[string]int
	// Gate, if set, is called at the start of NextID (outside the wrapper's mutex).
	Gate func()
}

// NewSession wraps a fresh MemorySession.
func NewSession(log *trace.Log, name string) *Session {
	return &Session{Inner: session.NewMemorySession(), Tr: log, Name: name, calls: map[string]int{}}
}

func (s *Session) fail(op string) bool {
	s.calls[op]++
	return s.Fail != nil && s.Fail[op] == s.calls[op]
}

func dirName(d session.Direction) string {
	if d == session.Incoming {
		return "in"
	}
	return "out"
}

// NextID implements client.Session.
func (s *Session) NextID() packet.ID {
	if s.Gate != nil {
		s.Gate()
	}
	s.mu.Lock()
	defer s.mu.Unlock()
	id := s.Inner.NextID()
	s.Tr.Add("sess.nextid", "s", s.Name, "id", int(id))
	return id
}

// SavePacket implements client.Session.
func (s *Session) SavePacket(d session.Direction, pkt packet.Generic) error {
	s.mu.Lock()
	defer s.mu.Unlock()
	id, _ := packet.GetID(pkt)
	if s.fail("save") {
		s.Tr.Add("sess.save", "s", s.Name, "d", dirName(d), "id", int(id), "pkt", link.PktRec(pkt), "err", ErrSession.Error())
		return ErrSession
	}
	err := s.Inner.SavePacket(d, pkt)
	s.Tr.Add("sess.save", "s", s.Name, "d", dirName(d), "id", int(id), "pkt", link.PktRec(pkt), "err", errStr(err))
	return err
}

// LookupPacket implements client.Session.
func (s *Session) LookupPacket(d session.Direction, id packet.ID) (packet.Generic, error) {
	s.mu.Lock()
	defer s.mu.Unlock()
	if s.fail("lookup") {
		s.Tr.Add("sess.lookup", "s", s.Name, "d", dirName(d), "id", int(id), "pkt", link.PktRec(nil), "err", ErrSession.Error())
		return nil, ErrSession
	}
	pkt, err := s.Inner.LookupPacket(d, id)
	s.Tr.Add("sess.lookup", "s", s.Name, "d", dirName(d), "id", int(id), "pkt", link.PktRec(pkt), "err", errStr(err))
	return pkt, err
}

// DeletePacket implements client.Session.
func (s *Session) DeletePacket(d session.Direction, id packet.ID) error {
	s.mu.Lock()
	defer s.mu.Unlock()
	if s.fail("delete") {
		s.Tr.Add("sess.delete", "s", s.Name, "d", dirName(d), "id", int(id), "err", ErrSession.Error())
		return ErrSession
	}
	err := s.Inner.DeletePacket(d, id)
	s.Tr.Add("sess.delete", "s", s.Name, "d", dirName(d), "id", int(id), "err", errStr(err))
	return err
}

// AllPackets implements client.Session.
func (s *Session) AllPackets(d session.Direction) ([]packet.Generic, error) {
	s.mu.Lock()
	defer s.mu.Unlock()
	if s.fail("all") {
		s.Tr.Add("sess.all", "s", s.Name, "d", dirName(d), "list", []interface{}{}, "err", ErrSession.Error())
		return nil, ErrSession
	}
	all, err := s.Inner.AllPackets(d)
	list := []interface{}{}
	for _, p := range all {
		list = append(list, link.PktRec(p))
	}
	s.Tr.Add("sess.all", "s", s.Name, "d", dirName(d), "list", list, "err", errStr(err))
	return all, err
}

// Reset implements client.Session.
func (s *Session) Reset() error {
	s.mu.Lock()
	defer s.mu.Unlock()
	if s.fail("reset") {
		s.Tr.Add("sess.reset", "s", s.Name, "err", ErrSession.Error())
		return ErrSession
	}
	err := s.Inner.Reset()
	s.Tr.Add("sess.reset", "s", s.Name, "err", errStr(err))
	return err
}
