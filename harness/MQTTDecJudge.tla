---------------------------- MODULE MQTTDecJudge ----------------------------
(* C02 code -> spec: verdicts and field values recorded from the library's decoders for
   arbitrary byte strings, judged against the reference decoder Dec (which looks only at the
   header-declared extent, so locality is part of the oracle).
   Record: [i, kind |-> "raw" | "stream", b |-> bytes, ok, n, p |-> explicit packet record] *)
EXTENDS MQTTCodec, Json

Recs == ndJsonDeserialize("@@TRACE@@")

NOk(r, d) ==    \* consumed count: the extent; L3: end of the last field for CONNECT/CONNACK
  \/ r.kind = "stream"
  \/ r.n = d.n
\* large inputs come in run form (br) and without the payload bytes (plen instead; the harness compares the payload itself)
Bytes(r) == IF "br" \in DOMAIN r THEN Expand(r.br) ELSE r.b
SameP(r, d) == IF "br" \in DOMAIN r THEN [d.p EXCEPT !.payload = <<>>] = r.p /\ Len(d.p.payload) = r.plen ELSE d.p = r.p
Judge(r) ==
  LET b == Bytes(r)  d == Dec(b) IN
  IF d.ok = r.ok /\ (d.ok => (SameP(r, d) /\ NOk(r, d) /\ d.n <= d.ext /\ (d.p.t \notin {CONNECT, CONNACK} => d.n = d.ext) /\ Reencodable(d.p)))
  THEN TRUE
  ELSE LET d2 == DecG(b, TRUE) IN
       IF r.kind = "raw" /\ b[1] \div 16 = CONNECT /\ ~d.ok /\ r.ok /\ d2.ok /\ d2.p = r.p /\ d2.n = r.n
       THEN PrintT(<<"KNOWN", "ConnectOverRead", r.i>>)
       ELSE PrintT(<<"DISAGREE", ToJson([i |-> r.i, kind |-> r.kind, refok |-> d.ok, ok |-> r.ok, refn |-> d.n, n |-> r.n,
                                    fields |-> (d.ok /\ r.ok /\ ~SameP(r, d))])>>)

ASSUME \A i \in 1..Len(Recs) : Judge(Recs[i])
ASSUME PrintT(<<"JUDGED", Len(Recs), Cardinality({i \in 1..Len(Recs) : Recs[i].ok})>>)
=============================================================================
