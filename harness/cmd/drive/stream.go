package main

// C03: every fragmentation of reference byte streams through the real stream decoder,
// BaseConn over a scripted carrier, TCP and WebSocket loopback; wire exactness of sends.
// C19: concurrent senders / closer / receiver on a real BaseConn, recorded for TLC.

import (
	"io/ioutil"
	"strings"
	"bytes"
	"encoding/json"
	"errors"
	"flag"
	"fmt"
	"io"
	"math/rand"
	"net"
	"net/http"
	"os"
	"sync"
	"time"

	"github.com/256dpi/gomqtt/packet"
	"github.com/256dpi/gomqtt/transport"
	"github.com/gorilla/websocket"

	"verif/harness/link"
	"verif/harness/trace"
	"verif/harness/util"
)

func init() {
	register("stream-replay", streamReplay)
	register("conn-conc", connConc)
}

type pktSum struct {
	T    int `json:"t"`
	ID   int `json:"id"`
	PLen int `json:"plen"`
}

type streamCase struct {
	Name  string                   `json:"name"`
	SR    []run                    `json:"sr"`
	Sum   []pktSum                 `json:"sum"`
	S     []int                    `json:"s"`
	Limit int                      `json:"limit"`
	N     int                      `json:"n"`
	Pkts  []map[string]interface{} `json:"pkts"`
	Err   string                   `json:"err"`
}

type chunkReader struct {
	data   []byte
	chunks []int
	i      int
}

func (r *chunkReader) Read(p []byte) (int, error) {
	if len(r.data) == 0 {
		return 0, io.EOF
	}
	n := len(p)
	if r.i < len(r.chunks) && r.chunks[r.i] < n {
		n = r.chunks[r.i]
	}
	r.i++
	if n > len(r.data) {
		n = len(r.data)
	}
	copy(p, r.data[:n])
	r.data = r.data[n:]
	return n, nil
}

func errKind(err error) string {
	var pe *packet.Error
	switch {
	case err == nil:
		return "none"
	case err == io.EOF:
		return "eof"
	case err == io.ErrUnexpectedEOF:
		return "partial"
	case err == packet.ErrReadLimitExceeded:
		return "limit"
	case err == packet.ErrDetectionOverflow:
		return "overflow"
	case err == packet.ErrInvalidPacketType || errors.As(err, &pe):
		return "invalid"
	}
	return "other:" + err.Error()
}

func canon(v interface{}) string {
	b, _ := json.Marshal(v)
	var x interface{}
	json.Unmarshal(b, &x)
	b, _ = json.Marshal(x)
	return string(b)
}

// compare what a receiver obtained with the reference
func (c *streamCase) compare(rep *util.Report, path string, chunks []int, got []packet.Generic, err error) {
	kind := errKind(err)
	ok := len(got) == c.N && kind == c.Err
	for i := 0; ok && i < len(got); i++ {
		if c.Sum != nil {
			// huge streams: type, id and payload length from the reference; the payload bytes are the fill pattern
			pl := 0
			id, _ := packet.GetID(got[i])
			if pb, isPub := got[i].(*packet.Publish); isPub {
				pl = len(pb.Message.Payload)
				for k := 1; k+1 < pl && ok; k += 4099 {
					ok = pb.Message.Payload[k] == 170
				}
			}
			ok = ok && int(got[i].Type()) == c.Sum[i].T && int(id) == c.Sum[i].ID && pl == c.Sum[i].PLen
		} else {
			ok = canon(explicit(got[i])) == canon(c.Pkts[i])
		}
	}
	if !ok {
		s := make([]byte, len(c.S))
		for i, x := range c.S {
			s[i] = byte(x)
		}
		if len(s) > 24 {
			s = s[:24]
		}
		rep.Mismatch("%s: stream %x.. (%d bytes, limit %d) chunks %v: got %d packets then %q, reference %d packets then %q",
			path, s, len(c.S)+len(expandRuns(c.SR)), c.Limit, head(chunks, 12), len(got), kind, c.N, c.Err)
	}
}

func head(l []int, n int) []int {
	if len(l) > n {
		return l[:n]
	}
	return l
}

func runDecoder(data []byte, chunks []int, limit int) ([]packet.Generic, error) {
	dec := packet.NewDecoder(&chunkReader{data: data, chunks: chunks})
	dec.SetReadLimit(int64(limit))
	var got []packet.Generic
	for {
		p, err := dec.Read()
		if err != nil {
			return got, err
		}
		got = append(got, p)
	}
}

func runBaseConn(data []byte, chunks []int, limit int) ([]packet.Generic, error) {
	car := link.NewCarrier(nil, "r")
	car.Quiet = true
	car.Chunks = chunks
	car.Feed(data)
	car.RemoteClose()
	conn := transport.NewBaseConn(car)
	conn.SetReadLimit(int64(limit))
	var got []packet.Generic
	for {
		p, err := conn.Receive()
		if err != nil {
			return got, err
		}
		got = append(got, p)
	}
}

var wsUp = websocket.Upgrader{}

// runWebSocket: a raw gorilla peer writes one binary message per chunk (a fraction of a packet, or several packets), then closes.
func runWebSocket(data []byte, chunks []int, limit int) ([]packet.Generic, error) {
	ln, err := net.Listen("tcp", "127.0.0.1:0")
	if err != nil {
		return nil, fmt.Errorf("other:listen %v", err)
	}
	defer ln.Close()
	srv := &http.Server{Handler: http.HandlerFunc(func(w http.ResponseWriter, r *http.Request) {
		c, err := wsUp.Upgrade(w, r, nil)
		if err != nil {
			return
		}
		rest := data
		for i := 0; len(rest) > 0; i++ {
			n := len(rest)
			if i < len(chunks) && chunks[i] < n {
				n = chunks[i]
			}
			c.WriteMessage(websocket.BinaryMessage, rest[:n])
			rest = rest[n:]
		}
		c.WriteControl(websocket.CloseMessage, websocket.FormatCloseMessage(websocket.CloseNormalClosure, ""), time.Now().Add(time.Second))
		time.Sleep(2 * time.Millisecond)
		c.Close()
	})}
	go srv.Serve(ln)
	defer srv.Close()
	wc, _, err := websocket.DefaultDialer.Dial("ws://"+ln.Addr().String()+"/", nil)
	if err != nil {
		return nil, fmt.Errorf("other:dial %v", err)
	}
	conn := transport.NewWebSocketConn(wc)
	conn.SetReadLimit(int64(limit))
	conn.SetReadTimeout(5 * time.Second)
	var got []packet.Generic
	for {
		p, err := conn.Receive()
		if err != nil {
			return got, err
		}
		got = append(got, p)
	}
}

func runTCP(data []byte, chunks []int, limit int) ([]packet.Generic, error) {
	ln, err := net.Listen("tcp", "127.0.0.1:0")
	if err != nil {
		return nil, fmt.Errorf("other:listen %v", err)
	}
	defer ln.Close()
	go func() {
		c, err := ln.Accept()
		if err != nil {
			return
		}
		if tc, ok := c.(*net.TCPConn); ok {
			tc.SetNoDelay(true)
		}
		rest := data
		for i := 0; len(rest) > 0; i++ {
			n := len(rest)
			if i < len(chunks) && chunks[i] < n {
				n = chunks[i]
			}
			c.Write(rest[:n])
			rest = rest[n:]
			if i%4 == 0 {
				time.Sleep(200 * time.Microsecond)
			}
		}
		c.Close()
	}()
	nc, err := net.Dial("tcp", ln.Addr().String())
	if err != nil {
		return nil, fmt.Errorf("other:dial %v", err)
	}
	conn := transport.NewNetConn(nc)
	conn.SetReadLimit(int64(limit))
	conn.SetReadTimeout(5 * time.Second)
	var got []packet.Generic
	for {
		p, err := conn.Receive()
		if err != nil {
			return got, err
		}
		got = append(got, p)
	}
}

// sendExact: the packets of a whole-packet stream sent through a real BaseConn (sync / async mix, flush timer) must put
// exactly the reference bytes on the wire
func sendExact(rep *util.Report, c *streamCase, data []byte, pkts []packet.Generic, rng *rand.Rand) {
	for round := 0; round < 3; round++ {
		car := link.NewCarrier(nil, "w")
		conn := transport.NewBaseConn(car)
		conn.SetMaxWriteDelay(time.Duration(rng.Intn(3)) * time.Millisecond)
		pattern := []bool{}
		for i, p := range pkts {
			async := (round == 0) || (round == 1 && i%2 == 0) || (round == 2 && rng.Intn(2) == 0)
			pattern = append(pattern, async)
			if err := conn.Send(p, async); err != nil {
				rep.Mismatch("send: Send failed: %v", err)
			}
			if round == 2 && rng.Intn(3) == 0 {
				time.Sleep(time.Duration(rng.Intn(4)) * time.Millisecond) // lets the flush timer fire in between
			}
		}
		if err := conn.Close(); err != nil {
			rep.Mismatch("send: Close failed: %v", err)
		}
		rep.Case()
		if !bytes.Equal(car.Wire(), data) {
			w := car.Wire()
			i := 0
			for i < len(w) && i < len(data) && w[i] == data[i] {
				i++
			}
			rep.Mismatch("send: wire bytes differ from the concatenated reference encodings at offset %d (wire %d bytes, reference %d), async pattern %v", i, len(w), len(data), head2(pattern))
		}
	}
}

// sendDuplex: the same stream sent while the connection is also RECEIVING packets and the carrier accepts writes slowly
// (a stalled peer): the wire must still be exactly the reference bytes, the received packets exactly what was fed
func sendDuplex(rep *util.Report, data []byte, pkts []packet.Generic, rng *rand.Rand) {
	car := link.NewCarrier(nil, "d")
	car.WriteDelay = time.Duration(200+rng.Intn(800)) * time.Microsecond
	conn := transport.NewBaseConn(car)
	conn.SetMaxWriteDelay(time.Duration(rng.Intn(2)) * time.Millisecond)
	// inbound traffic: packets with a recognisable payload, fed in small pieces while the sends are under way
	in := packet.NewPublish()
	in.Message.Topic = "in"
	in.Message.Payload = bytes.Repeat([]byte{'I'}, 6000)
	inb := make([]byte, in.Len())
	in.Encode(inb)
	const nin = 12
	done := make(chan int, 1)
	go func() {
		got := 0
		for {
			p, err := conn.Receive()
			if err != nil {
				break
			}
			if pb, ok := p.(*packet.Publish); !ok || !bytes.Equal(pb.Message.Payload, in.Message.Payload) {
				rep.Mismatch("duplex: a received packet differs from what the peer sent")
				break
			}
			got++
		}
		done <- got
	}()
	go func() {
		for i := 0; i < nin; i++ {
			for off := 0; off < len(inb); off += 1500 {
				end := off + 1500
				if end > len(inb) {
					end = len(inb)
				}
				car.Feed(inb[off:end])
				time.Sleep(50 * time.Microsecond)
			}
		}
		car.RemoteClose()
	}()
	for i, p := range pkts {
		if err := conn.Send(p, i%2 == 0); err != nil {
			rep.Mismatch("duplex: Send failed: %v", err)
		}
	}
	got := <-done
	conn.Close()
	rep.Case()
	if got != nin {
		rep.Mismatch("duplex: received %d of %d inbound packets", got, nin)
	}
	if !bytes.Equal(car.Wire(), data) {
		w := car.Wire()
		i := 0
		for i < len(w) && i < len(data) && w[i] == data[i] {
			i++
		}
		rep.Mismatch("duplex: wire bytes differ from the concatenated reference encodings at offset %d (wire %d bytes, reference %d) while the connection was receiving", i, len(w), len(data))
	}
}

func head2(l []bool) []bool {
	if len(l) > 12 {
		return l[:12]
	}
	return l
}

func streamReplay(args []string) int {
	fs := flag.NewFlagSet("stream-replay", flag.ExitOnError)
	in := fs.String("cases", "", "streamcases.ndjson from TLC")
	seed := fs.Int64("seed", 1, "seed")
	nrand := fs.Int("random", 12, "random chunkings per long stream")
	sockets := fs.Int("sockets", 200, "cases x fragmentations replayed over real TCP / WebSocket loopback")
	fs.Parse(args)
	rng := rand.New(rand.NewSource(*seed))
	rep := &util.Report{}
	frag := 0
	nontrivial := 0
	sockLeft := *sockets
	duplexLeft := 12
	kinds := map[string]int{}
	err := util.ReadLines(*in, func(line []byte) error {
		var c streamCase
		if err := json.Unmarshal(line, &c); err != nil {
			return err
		}
		kinds[c.Err]++
		data := make([]byte, len(c.S))
		for i, x := range c.S {
			data[i] = byte(x)
		}
		if c.SR != nil {
			data = expandRuns(c.SR)
		}
		var chunkings [][]int
		n := len(data)
		if n == 0 {
			chunkings = [][]int{{}}
		} else if n <= 13 {
			// every composition of n
			for mask := 0; mask < 1<<(n-1); mask++ {
				var ch []int
				cur := 1
				for b := 0; b < n-1; b++ {
					if mask&(1<<b) != 0 {
						ch = append(ch, cur)
						cur = 1
					} else {
						cur++
					}
				}
				chunkings = append(chunkings, append(ch, cur))
			}
		} else {
			one := make([]int, n)
			for i := range one {
				one[i] = 1
			}
			if c.SR != nil {
				one = one[:6]
			}
			chunkings = append(chunkings, []int{n}, one[:min(len(one), 6000)], []int{1, 1, 1, 1, 1, n}, []int{2, n}, []int{n - 1, 1}, []int{4095, 1, n}, []int{4096, n}, []int{4097, n})
			if c.SR != nil {
				chunkings = [][]int{{n}, {1, 1, 1, 1, 1, n}, {5, 4091, n}, {n - 1, 1}}
			}
			for k := 0; k < *nrand && c.SR == nil; k++ {
				maxc := []int{2, 3, 7, 64, 1000, 5000}[rng.Intn(6)]
				var ch []int
				for left := n; left > 0; {
					x := 1 + rng.Intn(maxc)
					ch = append(ch, x)
					left -= x
				}
				chunkings = append(chunkings, ch)
			}
		}
		if c.N > 0 && len(chunkings) > 1 {
			nontrivial++
		}
		var lastGot []packet.Generic
		for ci, ch := range chunkings {
			frag++
			rep.Case()
			got, err := runDecoder(data, ch, c.Limit)
			c.compare(rep, "packet.Decoder", ch, got, err)
			lastGot = got
			got, err = runBaseConn(data, ch, c.Limit)
			c.compare(rep, "BaseConn", ch, got, err)
			// real sockets for a rotating sample
			if len(ch) > 300 {
				continue // (thousands of one-byte socket writes cost seconds and add nothing over the in-memory carriers)
			}
			if (sockLeft > 0 && (frag+int(*seed))%17 == 0 && n > 0 && c.Err != "overflow") || (n > 4000 && ci < 4 && c.SR == nil) || (c.SR != nil && ci == 0) {
				sockLeft--
				got, err = runWebSocket(data, ch, c.Limit)
				if err == nil || (len(errKind(err)) > 5 && errKind(err)[:5] == "other") {
					return fmt.Errorf("websocket loopback failed: %v", err)
				}
				c.compare(rep, "WebSocketConn", ch, got, err)
				got, err = runTCP(data, ch, c.Limit)
				if err != nil && len(errKind(err)) > 5 && errKind(err)[:5] == "other" {
					return fmt.Errorf("tcp loopback failed: %v", err)
				}
				c.compare(rep, "NetConn", ch, got, err)
			}
			_ = ci
		}
		if c.Err == "eof" && c.N > 0 && len(lastGot) == c.N {
			sendExact(rep, &c, data, lastGot, rng)
			if len(data) > 4096 && duplexLeft > 0 {
				duplexLeft--
				sendDuplex(rep, data, lastGot, rng)
			}
		}
		if rep.Cases < 3 {
			rep.Sample(map[string]interface{}{"stream": fmt.Sprintf("%x", data[:min(len(data), 24)]), "limit": c.Limit, "packets": len(c.Pkts), "end": c.Err, "fragmentations": len(chunkings)}, 3)
		}
		return nil
	})
	if err != nil {
		fmt.Fprintln(os.Stderr, err)
		return 2
	}
	rep.Set("fragmentations", frag)
	rep.Set("nontrivial_streams", nontrivial)
	rep.Set("socket_replays", *sockets-sockLeft)
	rep.Set("endings", kinds)
	rep.Print()
	return 0
}

func min(a, b int) int {
	if a < b {
		return a
	}
	return b
}

// ---------------------------------------------------------------- C19: concurrent use of one BaseConn

type connScript struct {
	ID       int   `json:"id"`
	Senders  int   `json:"senders"`
	PerSnd   int   `json:"persender"`
	DelayMS  int   `json:"delay_ms"`   // flush delay
	CloseAt  int   `json:"close_at"`   // closer goroutine fires after this many sends have been issued (0 = at the end)
	FailW    int   `json:"failwrite"`  // n-th carrier write fails
	FailR    int   `json:"failread"`   // n-th carrier read fails
	FailC    int   `json:"failclose"`  // n-th carrier close fails
	Partial  int   `json:"partial"`    // bytes accepted by the failing write
	Timeout  int   `json:"timeout_ms"` // read timeout
	Sizes    []int `json:"sizes"`      // payload sizes to cycle through
	SyncMod  int   `json:"syncmod"`    // every n-th send is flushed (0 = all buffered)
	Feed     int   `json:"feed"`       // packets the peer sends towards the receiver
	RClose   bool  `json:"rclose"`     // peer closes after feeding
	WDelayUS int   `json:"wdelay_us"`
	FailD    int   `json:"faildeadline"` // n-th SetReadDeadline fails
	FeedLoop int    `json:"feedloop"`   // packets the peer sends one by one while the senders are at work
	Carrier  string `json:"carrier"`    // "" = scripted in-memory carrier, "tcp" = real TCP on loopback (logged net.Conn)
	BlockW   int   `json:"blockwrite"`   // n-th carrier write blocks until the carrier is closed (back pressure)
}

func connConc(args []string) int {
	fs := flag.NewFlagSet("conn-conc", flag.ExitOnError)
	in := fs.String("scripts", "", "ndjson scripts")
	out := fs.String("out", "", "ndjson traces")
	shard := fs.Int("shard", 0, "shard")
	shards := fs.Int("shards", 1, "shards")
	fs.Int("slow", 1, "ignored (no timing dependence)")
	fs.Parse(args)
	f, err := os.Create(*out)
	if err != nil {
		return 2
	}
	defer f.Close()
	rep := &util.Report{}
	idx := 0
	err = util.ReadLines(*in, func(line []byte) error {
		idx++
		if (idx-1)%*shards != *shard {
			return nil
		}
		var s connScript
		if err := json.Unmarshal(line, &s); err != nil {
			return err
		}
		fmt.Fprintf(os.Stderr, "RUNNING script %d\n", s.ID)
		log := runConnScenario(&s)
		log.Write(f)
		rep.Case()
		return nil
	})
	if err != nil {
		fmt.Fprintln(os.Stderr, err)
		return 2
	}
	rep.Print()
	return 0
}

func intsOf(b []byte) []int {
	out := make([]int, len(b))
	for i, x := range b {
		out[i] = int(x)
	}
	return out
}

func runConnScenario(s *connScript) *trace.Log {
	log := trace.New(s.ID)
	type baseConn interface {
		Send(pkt packet.Generic, async bool) error
		Receive() (packet.Generic, error)
		Close() error
		SetReadTimeout(time.Duration)
		SetMaxWriteDelay(time.Duration)
	}
	var conn baseConn
	var feedFn func([]byte)
	var rcloseFn func()
	if s.Carrier == "tcp" {
		// a real TCP connection on loopback; the peer reads (and discards) everything it is sent
		ln, err := net.Listen("tcp", "127.0.0.1:0")
		if err != nil {
			panic(err)
		}
		defer ln.Close()
		acc := make(chan net.Conn, 1)
		go func() {
			c, err := ln.Accept()
			if err == nil {
				acc <- c
			}
		}()
		raw, err := net.Dial("tcp", ln.Addr().String())
		if err != nil {
			panic(err)
		}
		peer := <-acc
		defer peer.Close()
		go io.Copy(ioutil.Discard, peer)
		lc := &link.LogConn{Conn: raw, Log: log, Name: "k1", FailWrite: s.FailW, FailRead: s.FailR, FailClose: s.FailC, FailDeadline: s.FailD, PartialWrite: s.Partial}
		conn = transport.NewNetConn(lc)
		feedFn = func(b []byte) { peer.Write(b) }
		rcloseFn = func() {
			if tc, ok := peer.(*net.TCPConn); ok {
				tc.CloseWrite()
			}
		}
	} else {
		car := link.NewCarrier(log, "k1")
		car.FailWrite, car.FailRead, car.FailClose, car.PartialWrite = s.FailW, s.FailR, s.FailC, s.Partial
		car.FailDeadline, car.BlockWrite = s.FailD, s.BlockW
		car.WriteDelay = time.Duration(s.WDelayUS) * time.Microsecond
		conn = transport.NewBaseConn(car)
		feedFn = car.Feed
		rcloseFn = car.RemoteClose
	}
	delay := time.Duration(s.DelayMS) * time.Millisecond
	conn.SetMaxWriteDelay(delay)
	feedLens := []int{}
	var issued int64
	var mu sync.Mutex
	cond := sync.NewCond(&mu)
	var wg sync.WaitGroup
	stuck := map[string]bool{}
	var smu sync.Mutex
	call := func(name string, kv []interface{}, fn func() error) {
		smu.Lock()
		stuck[name] = true
		smu.Unlock()
		log.Add("api.call", append([]interface{}{"n", name}, kv...)...)
		err := fn()
		smu.Lock()
		delete(stuck, name)
		smu.Unlock()
		// op and g are the first two pairs of kv
		log.Add("api.ret", "n", name, kv[0], kv[1], kv[2], kv[3], "err", errS(err))
	}
	// feed for the receiver: s.Feed packets at once, s.FeedLoop more one by one while the senders are at work (duplex traffic)
	var feed []byte
	var later [][]byte
	for i := 0; i < s.Feed+s.FeedLoop; i++ {
		p := packet.NewPublish()
		p.Message.Topic = "r"
		pay := fmt.Sprintf("R#%d", i+1)
		if i >= s.Feed {
			pay += "|" + string(bytes.Repeat([]byte{'y'}, 3000))
		}
		p.Message.Payload = []byte(pay)
		b := make([]byte, p.Len())
		p.Encode(b)
		if i < s.Feed {
			feed = append(feed, b...)
		} else {
			later = append(later, b)
		}
		feedLens = append(feedLens, len(b))
	}
	log.Add("config", "script", s.ID, "senders", s.Senders, "delay_ms", s.DelayMS, "feed", feedLens)
	if s.Timeout > 0 {
		conn.SetReadTimeout(time.Duration(s.Timeout) * time.Millisecond)
	}
	feedFn(feed)
	if len(later) > 0 {
		go func() {
			for _, b := range later {
				time.Sleep(150 * time.Microsecond)
				feedFn(b)
			}
			if s.RClose {
				rcloseFn()
			}
		}()
	} else if s.RClose {
		rcloseFn()
	}
	// receiver
	wg.Add(1)
	go func() {
		defer wg.Done()
		for i := 0; ; i++ {
			var got packet.Generic
			name := fmt.Sprintf("recv%d", i+1)
			var rerr error
			call(name, []interface{}{"op", "receive", "g", "-"}, func() error {
				got, rerr = conn.Receive()
				return rerr
			})
			if rerr != nil {
				return
			}
			if pb, ok := got.(*packet.Publish); ok {
				k := 0
				fmt.Sscanf(string(pb.Message.Payload), "R#%d", &k)
				m := string(pb.Message.Payload)
				if len(m) > 12 {
					// (a long payload must be the filler it was sent with)
					if !strings.HasSuffix(m, "|"+string(bytes.Repeat([]byte{'y'}, 3000))) {
						k = -1
					}
					m = m[:strings.Index(m, "|")]
				}
				log.Add("recv.pkt", "m", m, "k", k)
			}
		}
	}()
	// senders
	for g := 1; g <= s.Senders; g++ {
		wg.Add(1)
		go func(g int) {
			defer wg.Done()
			for i := 1; i <= s.PerSnd; i++ {
				p := packet.NewPublish()
				p.Message.Topic = "s"
				size := 0
				if len(s.Sizes) > 0 {
					size = s.Sizes[(g+i)%len(s.Sizes)]
				}
				tag := fmt.Sprintf("S%d#%d", g, i)
				pay := tag
				if size > len(tag)+1 {
					pay = tag + "|" + string(bytes.Repeat([]byte{'x'}, size-len(tag)-1))
				}
				p.Message.Payload = []byte(pay)
				async := s.SyncMod == 0 || (g+i)%s.SyncMod != 0
				enc := make([]byte, p.Len())
				p.Encode(enc)
				name := fmt.Sprintf("send%d.%d", g, i)
				call(name, []interface{}{"op", "send", "g", fmt.Sprintf("g%d", g), "i", i, "async", async, "enc", intsOf(enc), "m", tag}, func() error { return conn.Send(p, async) })
				mu.Lock()
				issued++
				cond.Broadcast()
				mu.Unlock()
			}
		}(g)
	}
	// closer
	wg.Add(1)
	go func() {
		defer wg.Done()
		if s.CloseAt > 0 {
			mu.Lock()
			for issued < int64(s.CloseAt) {
				cond.Wait()
			}
			mu.Unlock()
		} else {
			// after all senders are done
			mu.Lock()
			for issued < int64(s.Senders*s.PerSnd) {
				cond.Wait()
			}
			mu.Unlock()
		}
		call("close", []interface{}{"op", "close", "g", "-"}, func() error { return conn.Close() })
	}()
	done := make(chan struct{})
	go func() { wg.Wait(); close(done) }()
	select {
	case <-done:
	case <-time.After(4 * time.Second):
	}
	// after the close: flushed sends fail at once, buffered ones once the flush delay has elapsed, receives fail
	post := func(name string, kv []interface{}, fn func() error) {
		d := make(chan struct{})
		go func() { call(name, kv, fn); close(d) }()
		select {
		case <-d:
		case <-time.After(2 * time.Second):
		}
	}
	pk := func(tag string) *packet.Publish {
		p := packet.NewPublish()
		p.Message.Topic = "s"
		p.Message.Payload = []byte(tag)
		return p
	}
	encOf := func(p *packet.Publish) []int {
		b := make([]byte, p.Len())
		p.Encode(b)
		return intsOf(b)
	}
	p1, p2, p3 := pk("P#1"), pk("P#2"), pk("P#3")
	post("post.sync", []interface{}{"op", "send", "g", "p1", "i", 1, "async", false, "enc", encOf(p1), "m", "P#1"}, func() error { return conn.Send(p1, false) })
	post("post.async1", []interface{}{"op", "send", "g", "p2", "i", 1, "async", true, "enc", encOf(p2), "m", "P#2"}, func() error { return conn.Send(p2, true) })
	time.Sleep(delay + 15*time.Millisecond)
	post("post.async2", []interface{}{"op", "send", "g", "p3", "i", 1, "async", true, "enc", encOf(p3), "m", "P#3"}, func() error { return conn.Send(p3, true) })
	// the model has one receiver and one closer thread: a second call is only made when the first has returned
	// (a call that hangs is reported by the "settle" event)
	busy := func(prefix string) bool {
		smu.Lock()
		defer smu.Unlock()
		for n := range stuck {
			if strings.HasPrefix(n, prefix) {
				return true
			}
		}
		return false
	}
	if !busy("recv") {
		post("post.recv", []interface{}{"op", "receive", "g", "-"}, func() error { _, err := conn.Receive(); return err })
	}
	if !busy("close") {
		post("post.close", []interface{}{"op", "close", "g", "-"}, func() error { return conn.Close() })
	}
	smu.Lock()
	st := []string{}
	for n := range stuck {
		st = append(st, n)
	}
	smu.Unlock()
	log.Add("settle", "stuck", st)
	log.Add("end")
	return log
}
