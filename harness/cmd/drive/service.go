package main

// Service conformance driver: the real client.Service dials (through Config.Dialer) into a
// scripted broker that fails on command; API calls from driver goroutines; callbacks, every
// packet, every session operation and every future resolution are logged.

import (
	"bufio"
	"encoding/json"
	"errors"
	"flag"
	"fmt"
	"os"
	"strings"
	"sync"
	"time"

	"github.com/256dpi/gomqtt/client"
	"github.com/256dpi/gomqtt/packet"
	"github.com/256dpi/gomqtt/transport"

	"verif/harness/link"
	"verif/harness/trace"
	"verif/harness/util"
	"verif/harness/wrap"
)

func init() { register("service", serviceDrive) }

type sConfig struct {
	cConfig
	Faults    []*link.Fault `json:"faults"`    // fault of the n-th dialled connection (null = none)
	DialFails []int         `json:"dialfails"` // dial numbers that are refused
	NoConnAck []int         `json:"noconnacks"`
	Denies    []int         `json:"denies"`   // dial numbers answered with CONNACK 5
	SubFails  []int         `json:"subfails"` // dial numbers on which SUBACKs carry the failure code
	NoResub   bool          `json:"noresub"`
	QueueSize int           `json:"queuesize"`
}

type sStep struct {
	cStep
	Clear bool `json:"clear"`
}

type sScript struct {
	ID     int     `json:"id"`
	Family string  `json:"family"`
	Mode   string  `json:"mode"`
	Config sConfig `json:"config"`
	Steps  []sStep `json:"steps"`
}

func inList(l []int, n int) bool {
	for _, x := range l {
		if x == n {
			return true
		}
	}
	return false
}

type sDialer struct {
	sc  *cScenario
	cfg *sConfig
}

func (d *sDialer) Dial(url string) (transport.Conn, error) {
	sc := d.sc
	sc.mu.Lock()
	sc.ndial++
	n := sc.ndial
	sc.nlinks++
	name := fmt.Sprintf("k%d", sc.nlinks)
	sc.mu.Unlock()
	if inList(d.cfg.DialFails, n) {
		sc.log.Add("dial", "c", name, "err", "refused")
		return nil, errors.New("connection refused (injected)")
	}
	l := link.New(sc.log, name, "c")
	if n-1 < len(d.cfg.Faults) {
		l.Fault = d.cfg.Faults[n-1]
	}
	sc.mu.Lock()
	sc.cur = l
	sc.owed = nil
	sc.cfg.NoConnack = inList(d.cfg.NoConnAck, n)
	sc.cfg.Deny = 0
	if inList(d.cfg.Denies, n) {
		sc.cfg.Deny = 5
	}
	sc.cfg.SubFail = inList(d.cfg.SubFails, n)
	sc.mu.Unlock()
	sc.log.Add("dial", "c", name, "err", "")
	sc.readers.Add(1)
	go sc.brokerReader(l)
	return link.Conn{L: l}, nil
}

func runServiceScenario(s *sScript, slow int) *trace.Log {
	log := trace.New(s.ID)
	sc := &cScenario{log: log, cfg: s.Config.cConfig, pending: map[string]bool{}, stuck: map[int]bool{}, bauto: true,
		gateCh: make(chan struct{}, 1), idle: time.Duration(6*slow) * time.Millisecond}
	sc.sess = wrap.NewSession(log, "ss")
	sc.sess.Fail = s.Config.SessFail
	qs := s.Config.QueueSize
	if qs == 0 {
		qs = 100
	}
	svc := client.NewService(qs)
	svc.Session = sc.sess
	svc.MinReconnectDelay = time.Duration(2*slow) * time.Millisecond
	svc.MaxReconnectDelay = time.Duration(8*slow) * time.Millisecond
	svc.ConnectTimeout = time.Duration(60*slow) * time.Millisecond
	svc.ResubscribeTimeout = time.Duration(60*slow) * time.Millisecond
	svc.DisconnectTimeout = time.Duration(60*slow) * time.Millisecond
	svc.QueueTimeout = time.Duration(60*slow) * time.Millisecond
	svc.ResubscribeAllSubscriptions = !s.Config.NoResub
	svc.OnlineCallback = func(resumed bool) { log.Add("svc.online", "resumed", resumed) }
	svc.OfflineCallback = func() { log.Add("svc.offline") }
	svc.ErrorCallback = func(err error) { log.Add("svc.error", "err", err.Error()) }
	svc.Logger = func(msg string) {
		// "<Sys> Error: <err>" - which part of the service met the error (the error callback only gets the error)
		if i := strings.Index(msg, " Error: "); i > 0 {
			log.Add("svc.fail", "sys", msg[:i], "err", msg[i+8:])
		}
	}
	svc.MessageCallback = func(m *packet.Message) error {
		log.Add("svc.msg", "msg", link.MsgRec(m))
		return nil
	}
	cfg := client.NewConfigWithClientID("mem://broker", "svc")
	cfg.CleanSession = s.Config.Clean
	cfg.KeepAlive = "0s"
	cfg.ValidateSubs = !s.Config.NoValid
	cfg.Dialer = &sDialer{sc: sc, cfg: &s.Config}
	log.Add("config", "script", s.ID, "family", s.Family, "clean", s.Config.Clean, "validate", !s.Config.NoValid, "resub", !s.Config.NoResub, "qs", qs)

	step := func(st sStep, wait bool) {
		switch st.Do {
		case "svc.start":
			sc.api("start", nil, func() (string, error) {
				if !svc.Start(cfg) {
					return "", errors.New("already started")
				}
				return "", nil
			})
		case "svc.stop":
			sc.api("stop", map[string]interface{}{"clear": st.Clear}, func() (string, error) {
				if !svc.Stop(st.Clear) {
					return "", errors.New("not started")
				}
				return "", nil
			})
		case "svc.publish":
			m := st.Msg.message()
			sc.api("publish", map[string]interface{}{"msg": link.MsgRec(&m)}, func() (string, error) {
				return sc.watch("publish", svc.PublishMessage(&m)), nil
			})
		case "svc.subscribe":
			var subs []packet.Subscription
			list := []interface{}{}
			for _, x := range st.Subs {
				subs = append(subs, packet.Subscription{Topic: x[0].(string), QOS: packet.QOS(int(x[1].(float64)))})
				list = append(list, map[string]interface{}{"f": x[0].(string), "q": int(x[1].(float64))})
			}
			sc.api("subscribe", map[string]interface{}{"subs": list}, func() (string, error) {
				return sc.watch("subscribe", svc.SubscribeMultiple(subs)), nil
			})
		case "svc.unsubscribe":
			tops := []interface{}{}
			for _, t := range st.Tops {
				tops = append(tops, t)
			}
			sc.api("unsubscribe", map[string]interface{}{"topics": tops}, func() (string, error) {
				return sc.watch("unsubscribe", svc.UnsubscribeMultiple(st.Tops)), nil
			})
		default:
			sc.step(st.cStep, wait)
			return
		}
		if wait {
			sc.log.WaitIdle(sc.idle, 2*time.Second)
		}
		if wait && st.Do == "svc.stop" {
			sc.log.WaitIdle(3*sc.idle, 2*time.Second)
			sc.mu.Lock()
			pend := []string{}
			for f := range sc.pending {
				pend = append(pend, f)
			}
			sc.mu.Unlock()
			log.Add("probe", "pending", pend, "clear", st.Clear)
		}
	}
	if s.Mode == "concurrent" {
		byTh := map[int][]sStep{}
		var order []int
		for _, st := range s.Steps {
			if _, ok := byTh[st.Th]; !ok {
				order = append(order, st.Th)
			}
			byTh[st.Th] = append(byTh[st.Th], st)
		}
		var wg sync.WaitGroup
		for _, th := range order {
			wg.Add(1)
			go func(steps []sStep) {
				defer wg.Done()
				for _, st := range steps {
					step(st, false)
				}
			}(byTh[th])
		}
		wg.Wait()
	} else {
		for _, st := range s.Steps {
			step(st, true)
		}
	}
	log.WaitIdle(time.Duration(80*slow)*time.Millisecond, 6*time.Second)
	sc.mu.Lock()
	pend := []string{}
	for f := range sc.pending {
		pend = append(pend, f)
	}
	stuck := []int{}
	for a := range sc.stuck {
		stuck = append(stuck, a)
	}
	sc.mu.Unlock()
	log.Add("settle", "pending", pend, "stuck", stuck)
	// end: stop the service (never leave it running into the next scenario); a regular, logged API call
	sc.api("stop", map[string]interface{}{"clear": true}, func() (string, error) {
		if !svc.Stop(true) {
			return "", errors.New("not started")
		}
		return "", nil
	})
	log.WaitIdle(time.Duration(20*slow)*time.Millisecond, 3*time.Second)
	log.Add("end")
	return log
}

func serviceDrive(args []string) int {
	fs := flag.NewFlagSet("service", flag.ExitOnError)
	in := fs.String("scripts", "", "ndjson scripts")
	out := fs.String("out", "", "ndjson traces")
	slow := fs.Int("slow", 1, "timing multiplier")
	shard := fs.Int("shard", 0, "shard")
	shards := fs.Int("shards", 1, "shards")
	fs.Parse(args)
	f, err := os.Create(*out)
	if err != nil {
		fmt.Fprintln(os.Stderr, err)
		return 2
	}
	defer f.Close()
	w := bufio.NewWriterSize(f, 1<<20)
	defer w.Flush()
	rep := &util.Report{}
	idx := 0
	err = util.ReadLines(*in, func(line []byte) error {
		idx++
		if (idx-1)%*shards != *shard {
			return nil
		}
		var s sScript
		if err := json.Unmarshal(line, &s); err != nil {
			return fmt.Errorf("bad script: %v", err)
		}
		fmt.Fprintf(os.Stderr, "RUNNING script %d\n", s.ID)
		log := runServiceScenario(&s, *slow)
		log.Write(w)
		w.Flush()
		rep.Case()
		return nil
	})
	if err != nil {
		fmt.Fprintln(os.Stderr, err)
		return 2
	}
	rep.Print()
	return 0
}
