package main

// C04 / C05: the real topic.Tree against TopicMatch.tla / TopicTree.tla.

import (
	"encoding/json"
	"flag"
	"fmt"
	"math/rand"
	"os"
	"sort"
	"strings"
	"sync"

	"github.com/256dpi/gomqtt/topic"

	"verif/harness/util"
)

func init() {
	register("topic-table", topicTable)
	register("topic-record", topicRecord)
	register("tree-replay", treeReplay)
	register("tree-random", treeRandom)
	register("tree-conc", treeConc)
}

func joinT(levels []string) string { return strings.Join(levels, "/") }

func keyT(levels []string) string { return strings.Join(levels, "\x01") }

func sortedVals(vs []interface{}) ([]int, bool) {
	out := make([]int, 0, len(vs))
	dup := false
	seen := map[int]bool{}
	for _, v := range vs {
		i, ok := v.(int)
		if !ok {
			return nil, true
		}
		if seen[i] {
			dup = true
		}
		seen[i] = true
		out = append(out, i)
	}
	sort.Ints(out)
	return out, dup
}

func eqInts(a, b []int) bool {
	if len(a) != len(b) {
		return false
	}
	for i := range a {
		if a[i] != b[i] {
			return false
		}
	}
	return true
}

// ---------------------------------------------------------------- C04: full table, both directions, small sets

type tableRow struct {
	F  []string   `json:"f"`
	Ms [][]string `json:"ms"`
}

func topicTable(args []string) int {
	fs := flag.NewFlagSet("topic-table", flag.ExitOnError)
	dir := fs.String("dir", "", "directory with names.ndjson and table.ndjson written by TLC")
	seed := fs.Int64("seed", 1, "seed")
	sets := fs.Int("sets", 3000, "random larger sets")
	fs.Parse(args)
	rep := &util.Report{}
	var names [][]string
	util.ReadLines(*dir+"/names.ndjson", func(l []byte) error {
		var r struct {
			N []string `json:"n"`
		}
		if err := json.Unmarshal(l, &r); err != nil {
			return err
		}
		names = append(names, r.N)
		return nil
	})
	var rows []tableRow
	if err := util.ReadLines(*dir+"/table.ndjson", func(l []byte) error {
		var r tableRow
		if err := json.Unmarshal(l, &r); err != nil {
			return err
		}
		rows = append(rows, r)
		return nil
	}); err != nil || len(rows) == 0 || len(names) == 0 {
		fmt.Fprintln(os.Stderr, "cannot read table", err)
		return 2
	}
	sort.Slice(rows, func(i, j int) bool { return keyT(rows[i].F) < keyT(rows[j].F) })
	sort.Slice(names, func(i, j int) bool { return keyT(names[i]) < keyT(names[j]) })
	// matches[fi][ni]
	nameIdx := map[string]int{}
	for i, n := range names {
		nameIdx[keyT(n)] = i
	}
	matches := make([][]bool, len(rows))
	pos := 0
	for fi, r := range rows {
		matches[fi] = make([]bool, len(names))
		for _, n := range r.Ms {
			matches[fi][nameIdx[keyT(n)]] = true
			pos++
		}
	}
	rep.Set("filters", len(rows))
	rep.Set("names", len(names))
	rep.Set("matching_pairs", pos)
	// direction 1: stored filter, Match(name)
	for fi, r := range rows {
		tr := topic.NewStandardTree()
		tr.Add(joinT(r.F), 7)
		for ni, n := range names {
			rep.Case()
			got, dup := sortedVals(tr.Match(joinT(n)))
			want := []int{}
			if matches[fi][ni] {
				want = []int{7}
			}
			if dup || !eqInts(got, want) {
				rep.Mismatch("filter %q stored, Match(%q) = %v, reference says match=%v", joinT(r.F), joinT(n), got, matches[fi][ni])
			}
			first := tr.MatchFirst(joinT(n))
			if (first != nil) != matches[fi][ni] || (first != nil && first != 7) {
				rep.Mismatch("filter %q stored, MatchFirst(%q) = %v, reference says match=%v", joinT(r.F), joinT(n), first, matches[fi][ni])
			}
		}
	}
	// direction 2: stored name, Search(filter)
	for ni, n := range names {
		tr := topic.NewStandardTree()
		tr.Add(joinT(n), 7)
		for fi, r := range rows {
			rep.Case()
			got, dup := sortedVals(tr.Search(joinT(r.F)))
			want := []int{}
			if matches[fi][ni] {
				want = []int{7}
			}
			if dup || !eqInts(got, want) {
				rep.Mismatch("name %q stored, Search(%q) = %v, reference says match=%v", joinT(n), joinT(r.F), got, matches[fi][ni])
			}
			first := tr.SearchFirst(joinT(r.F))
			if (first != nil) != matches[fi][ni] {
				rep.Mismatch("name %q stored, SearchFirst(%q) = %v, reference says match=%v", joinT(n), joinT(r.F), first, matches[fi][ni])
			}
		}
	}
	// sets: all subsets of size <= 3 of the filters of depth <= 2 (each its own value) against all names of depth <= 3
	var smallF, smallN, midN []int
	for fi, r := range rows {
		if len(r.F) <= 2 {
			smallF = append(smallF, fi)
		}
	}
	for ni, n := range names {
		if len(n) <= 2 {
			smallN = append(smallN, ni)
		}
		if len(n) <= 3 {
			midN = append(midN, ni)
		}
	}
	checkFilterSet := func(set []int, vals []int, nis []int) {
		tr := topic.NewStandardTree()
		for k, fi := range set {
			tr.Add(joinT(rows[fi].F), vals[k])
		}
		for _, ni := range nis {
			rep.Case()
			wantSet := map[int]bool{}
			for k, fi := range set {
				if matches[fi][ni] {
					wantSet[vals[k]] = true
				}
			}
			want := []int{}
			for v := range wantSet {
				want = append(want, v)
			}
			sort.Ints(want)
			got, dup := sortedVals(tr.Match(joinT(names[ni])))
			if dup || !eqInts(got, want) {
				var fl []string
				for _, fi := range set {
					fl = append(fl, joinT(rows[fi].F))
				}
				rep.Mismatch("filters %q (values %v) stored, Match(%q) = %v (dup=%v), reference %v", fl, vals, joinT(names[ni]), got, dup, want)
			}
			first := tr.MatchFirst(joinT(names[ni]))
			if (first == nil) != (len(want) == 0) || (first != nil && !wantSet[first.(int)]) {
				rep.Mismatch("MatchFirst(%q) = %v not in reference answer %v", joinT(names[ni]), first, want)
			}
		}
	}
	checkNameSet := func(set []int, vals []int, fis []int) {
		tr := topic.NewStandardTree()
		for k, ni := range set {
			tr.Add(joinT(names[ni]), vals[k])
		}
		for _, fi := range fis {
			rep.Case()
			wantSet := map[int]bool{}
			for k, ni := range set {
				if matches[fi][ni] {
					wantSet[vals[k]] = true
				}
			}
			want := []int{}
			for v := range wantSet {
				want = append(want, v)
			}
			sort.Ints(want)
			got, dup := sortedVals(tr.Search(joinT(rows[fi].F)))
			if dup || !eqInts(got, want) {
				var nl []string
				for _, ni := range set {
					nl = append(nl, joinT(names[ni]))
				}
				rep.Mismatch("names %q (values %v) stored, Search(%q) = %v (dup=%v), reference %v", nl, vals, joinT(rows[fi].F), got, dup, want)
			}
			first := tr.SearchFirst(joinT(rows[fi].F))
			if (first == nil) != (len(want) == 0) || (first != nil && !wantSet[first.(int)]) {
				rep.Mismatch("SearchFirst(%q) = %v not in reference answer %v", joinT(rows[fi].F), first, want)
			}
		}
	}
	allF := make([]int, len(rows))
	for i := range allF {
		allF[i] = i
	}
	nsets := 0
	for a := 0; a < len(smallF); a++ {
		for b := a + 1; b < len(smallF); b++ {
			checkFilterSet([]int{smallF[a], smallF[b]}, []int{1, 2}, midN)
			nsets++
			for c := b + 1; c < len(smallF); c++ {
				checkFilterSet([]int{smallF[a], smallF[b], smallF[c]}, []int{1, 2, 3}, smallN)
				nsets++
			}
		}
	}
	for a := 0; a < len(smallN); a++ {
		for b := a + 1; b < len(smallN); b++ {
			checkNameSet([]int{smallN[a], smallN[b]}, []int{1, 2}, allF)
			nsets++
			for c := b + 1; c < len(smallN); c++ {
				checkNameSet([]int{smallN[a], smallN[b], smallN[c]}, []int{1, 2, 3}, allF)
				nsets++
			}
		}
	}
	// random larger sets, values shared between topics (each value must be returned once)
	rng := rand.New(rand.NewSource(*seed))
	for i := 0; i < *sets; i++ {
		k := 2 + rng.Intn(7)
		set := make([]int, k)
		vals := make([]int, k)
		if i%2 == 0 {
			for j := range set {
				set[j] = rng.Intn(len(rows))
				vals[j] = 1 + rng.Intn(4)
			}
			nis := make([]int, 12)
			for j := range nis {
				nis[j] = rng.Intn(len(names))
			}
			checkFilterSet(set, vals, nis)
		} else {
			for j := range set {
				set[j] = rng.Intn(len(names))
				vals[j] = 1 + rng.Intn(4)
			}
			fis := make([]int, 12)
			for j := range fis {
				fis[j] = rng.Intn(len(rows))
			}
			checkNameSet(set, vals, fis)
		}
		nsets++
	}
	rep.Set("sets", nsets)
	rep.Sample(map[string]interface{}{"filter": joinT(rows[len(rows)/2].F), "matches": len(rows[len(rows)/2].Ms)}, 1)
	rep.Print()
	return 0
}

// ---------------------------------------------------------------- C04: code -> spec, random long topics judged by TLC

var levelAlphabet = []string{"a", "b", "", "ab", "é", "日本", "x y", "A", "a.b", "$", "0", "ü", "\u00a0", "long-level-name", "𝛼"}

func randLevels(rng *rand.Rand, depth int, filter bool) []string {
	n := 1 + rng.Intn(depth)
	out := make([]string, n)
	for i := range out {
		out[i] = levelAlphabet[rng.Intn(len(levelAlphabet))]
		if filter && rng.Intn(4) == 0 {
			out[i] = "+"
		}
	}
	if filter && rng.Intn(3) == 0 {
		out[n-1] = "#"
	}
	if n == 1 && out[0] == "" {
		out[0] = "a"
	}
	if !filter && out[0] == "$" {
		out[0] = "a"
	}
	return out
}

func bytesOf(s string) []int {
	b := []byte(s)
	out := make([]int, len(b))
	for i, c := range b {
		out[i] = int(c)
	}
	return out
}

func topicRecord(args []string) int {
	fs := flag.NewFlagSet("topic-record", flag.ExitOnError)
	out := fs.String("out", "", "output ndjson")
	n := fs.Int("n", 2000, "records")
	seed := fs.Int64("seed", 1, "seed")
	depth := fs.Int("depth", 12, "max depth")
	fs.Parse(args)
	rng := rand.New(rand.NewSource(*seed))
	f, err := os.Create(*out)
	if err != nil {
		return 2
	}
	defer f.Close()
	enc := json.NewEncoder(f)
	rep := &util.Report{}
	for i := 0; i < *n; i++ {
		// a base name; filters derived from it by generalisation so that matches are frequent
		base := randLevels(rng, *depth, false)
		k := 1 + rng.Intn(5)
		stored := make([][]string, k)
		for j := range stored {
			if rng.Intn(3) == 0 {
				stored[j] = randLevels(rng, *depth, i%2 == 0)
				continue
			}
			g := append([]string{}, base...)
			if i%2 == 0 { // stored filters: generalise the base name
				for x := range g {
					if rng.Intn(3) == 0 {
						g[x] = "+"
					}
				}
				switch rng.Intn(4) {
				case 0:
					cut := rng.Intn(len(g) + 1)
					g = append(g[:cut:cut], "#")
				case 1:
					g = append(g, "+")
				case 2:
					if len(g) > 1 {
						g = g[:len(g)-1]
					}
				}
			} else { // stored names: vary the base name
				switch rng.Intn(4) {
				case 0:
					g = append(g, levelAlphabet[rng.Intn(len(levelAlphabet))])
				case 1:
					if len(g) > 1 {
						g = g[:len(g)-1]
					}
				case 2:
					g[rng.Intn(len(g))] = levelAlphabet[rng.Intn(len(levelAlphabet))]
				}
			}
			if len(g) == 1 && g[0] == "" {
				g[0] = "a"
			}
			stored[j] = g
		}
		tr := topic.NewStandardTree()
		for j, s := range stored {
			tr.Add(joinT(s), j+1)
		}
		var q []string
		var res []interface{}
		dirn := "match"
		if i%2 == 0 {
			q = base
			res = tr.Match(joinT(q))
		} else {
			dirn = "search"
			q = append([]string{}, base...)
			for x := range q {
				if rng.Intn(3) == 0 {
					q[x] = "+"
				}
			}
			if rng.Intn(3) == 0 {
				cut := rng.Intn(len(q) + 1)
				q = append(q[:cut:cut], "#")
			}
			res = tr.Search(joinT(q))
		}
		got, dup := sortedVals(res)
		if dup {
			rep.Mismatch("duplicate values in %s(%q): %v", dirn, joinT(q), res)
		}
		st := make([][]int, len(stored))
		for j, s := range stored {
			st[j] = bytesOf(joinT(s))
		}
		enc.Encode(map[string]interface{}{"dir": dirn, "stored": st, "q": bytesOf(joinT(q)), "got": got, "i": i})
		rep.Case()
		if len(got) > 0 {
			rep.Set("nonempty", func() int {
				if v, ok := rep.Extra["nonempty"]; ok {
					return v.(int) + 1
				}
				return 1
			}())
		}
		if i < 2 {
			rep.Sample(map[string]interface{}{"dir": dirn, "stored": func() []string {
				var x []string
				for _, s := range stored {
					x = append(x, joinT(s))
				}
				return x
			}(), "q": joinT(q), "got": got}, 2)
		}
	}
	rep.Print()
	return 0
}

// ---------------------------------------------------------------- C05: every transition of TopicTree.tla

type tv struct {
	T []string `json:"t"`
	V int      `json:"v"`
}

type treeOp struct {
	Op string   `json:"op"`
	T  []string `json:"t"`
	V  int      `json:"v"`
}

type treeEdge struct {
	Fs []tv   `json:"fs"`
	Op treeOp `json:"op"`
	Ts []tv   `json:"ts"`
}

type qa struct {
	T  []string `json:"t"`
	N  []string `json:"n"`
	F  []string `json:"f"`
	Vs []int    `json:"vs"`
}

type treeState struct {
	S      []tv  `json:"s"`
	Get    []qa  `json:"get"`
	Match  []qa  `json:"match"`
	Search []qa  `json:"search"`
	All    []int `json:"all"`
	Count  int   `json:"count"`
}

func stateKey(c []tv) string {
	var x []string
	for _, e := range c {
		x = append(x, fmt.Sprintf("%s=%d", keyT(e.T), e.V))
	}
	sort.Strings(x)
	return strings.Join(x, ";")
}

func applyTreeOp(tr *topic.Tree, o treeOp) {
	switch o.Op {
	case "add":
		tr.Add(joinT(o.T), o.V)
	case "set":
		tr.Set(joinT(o.T), o.V)
	case "remove":
		tr.Remove(joinT(o.T), o.V)
	case "empty":
		tr.Empty(joinT(o.T))
	case "clear":
		tr.Clear(o.V)
	case "reset":
		tr.Reset()
	default:
		panic("op " + o.Op)
	}
}

func normTreeString(tr *topic.Tree) string {
	lines := strings.Split(tr.String(), "\n")
	sort.Strings(lines)
	return strings.Join(lines, "\n")
}

// compareTree checks every query of the real tree against the model's answers for one state.
func compareTree(rep *util.Report, tr *topic.Tree, st *treeState, ctx string) {
	bad := func(q string, got interface{}, want interface{}) {
		rep.Mismatch("%s: %s = %v, model %v (contents %v)", ctx, q, got, want, st.S)
	}
	for _, g := range st.Get {
		got, dup := sortedVals(tr.Get(joinT(g.T)))
		want := append([]int{}, g.Vs...)
		sort.Ints(want)
		if dup || !eqInts(got, want) {
			bad(fmt.Sprintf("Get(%q)", joinT(g.T)), got, want)
		}
	}
	for _, g := range st.Match {
		got, dup := sortedVals(tr.Match(joinT(g.N)))
		want := append([]int{}, g.Vs...)
		sort.Ints(want)
		if dup || !eqInts(got, want) {
			bad(fmt.Sprintf("Match(%q)", joinT(g.N)), got, want)
		}
		first := tr.MatchFirst(joinT(g.N))
		if (first == nil) != (len(want) == 0) || (first != nil && !containsInt(want, first)) {
			bad(fmt.Sprintf("MatchFirst(%q)", joinT(g.N)), first, want)
		}
	}
	for _, g := range st.Search {
		got, dup := sortedVals(tr.Search(joinT(g.F)))
		want := append([]int{}, g.Vs...)
		sort.Ints(want)
		if dup || !eqInts(got, want) {
			bad(fmt.Sprintf("Search(%q)", joinT(g.F)), got, want)
		}
		first := tr.SearchFirst(joinT(g.F))
		if (first == nil) != (len(want) == 0) || (first != nil && !containsInt(want, first)) {
			bad(fmt.Sprintf("SearchFirst(%q)", joinT(g.F)), first, want)
		}
	}
	got, dup := sortedVals(tr.All())
	want := append([]int{}, st.All...)
	sort.Ints(want)
	if dup || !eqInts(got, want) {
		bad("All()", got, want)
	}
	if c := tr.Count(); c != st.Count {
		bad("Count()", c, st.Count)
	}
	// no observable trace of emptied branches: same structure as a fresh tree with the same contents
	fresh := topic.NewStandardTree()
	for _, e := range st.S {
		fresh.Add(joinT(e.T), e.V)
	}
	if a, b := normTreeString(tr), normTreeString(fresh); a != b {
		rep.Mismatch("%s: tree structure differs from a fresh tree with the same contents %v:\n%s\nvs\n%s", ctx, st.S, a, b)
	}
}

func containsInt(l []int, v interface{}) bool {
	i, ok := v.(int)
	if !ok {
		return false
	}
	for _, x := range l {
		if x == i {
			return true
		}
	}
	return false
}

type snapshot struct {
	what string
	live []interface{}
	copy []interface{}
}

func takeSnapshots(tr *topic.Tree, st *treeState) []snapshot {
	var out []snapshot
	add := func(what string, l []interface{}) {
		out = append(out, snapshot{what, l, append([]interface{}{}, l...)})
	}
	for _, g := range st.Get {
		add("Get("+joinT(g.T)+")", tr.Get(joinT(g.T)))
	}
	for _, g := range st.Match {
		add("Match("+joinT(g.N)+")", tr.Match(joinT(g.N)))
	}
	for _, g := range st.Search {
		add("Search("+joinT(g.F)+")", tr.Search(joinT(g.F)))
	}
	add("All()", tr.All())
	return out
}

func checkSnapshots(rep *util.Report, snaps []snapshot, ctx string) {
	for _, s := range snaps {
		same := len(s.live) == len(s.copy)
		for i := 0; same && i < len(s.live); i++ {
			same = s.live[i] == s.copy[i]
		}
		if !same {
			rep.Mismatch("%s: result of %s returned earlier was altered by a later operation: was %v, now %v", ctx, s.what, s.copy, s.live)
		}
	}
}

func loadTreeDump(path string) (map[string]*treeState, []treeEdge, error) {
	states := map[string]*treeState{}
	var edges []treeEdge
	err := util.ReadLines(path, func(l []byte) error {
		if l[0] == 'S' {
			var s treeState
			if err := json.Unmarshal(l[1:], &s); err != nil {
				return err
			}
			states[stateKey(s.S)] = &s
		} else if l[0] == 'E' {
			var e treeEdge
			if err := json.Unmarshal(l[1:], &e); err != nil {
				return err
			}
			edges = append(edges, e)
		}
		return nil
	})
	return states, edges, err
}

func treeReplay(args []string) int {
	fs := flag.NewFlagSet("tree-replay", flag.ExitOnError)
	in := fs.String("dump", "", "file with S{json} state lines and E{json} edge lines from TLC")
	fs.Parse(args)
	states, edges, err := loadTreeDump(*in)
	if err != nil {
		fmt.Fprintln(os.Stderr, err)
		return 2
	}
	rep := &util.Report{}
	paths := map[string][]treeOp{"": {}}
	ops := map[string]int{}
	changing := 0
	for _, e := range edges {
		from, to := stateKey(e.Fs), stateKey(e.Ts)
		p, ok := paths[from]
		if !ok {
			fmt.Fprintln(os.Stderr, "edge from unknown state", from)
			return 2
		}
		if _, ok := paths[to]; !ok {
			paths[to] = append(append([]treeOp{}, p...), e.Op)
		}
		st := states[to]
		if st == nil || states[from] == nil {
			fmt.Fprintln(os.Stderr, "state without answers", to)
			return 2
		}
		rep.Case()
		ops[e.Op.Op]++
		if from != to {
			changing++
		}
		tr := topic.NewStandardTree()
		for _, o := range p {
			applyTreeOp(tr, o)
		}
		snaps := takeSnapshots(tr, states[from])
		applyTreeOp(tr, e.Op)
		ctx := fmt.Sprintf("after %s(%q,%d) from %v", e.Op.Op, joinT(e.Op.T), e.Op.V, e.Fs)
		compareTree(rep, tr, st, ctx)
		checkSnapshots(rep, snaps, ctx)
		if rep.Cases%50 == 1 {
			rep.Sample(e, 3)
		}
	}
	rep.Set("ops", ops)
	rep.Set("states", len(states))
	rep.Set("state_changing_edges", changing)
	rep.Print()
	return 0
}

// treeRandom: long random histories (several hundred operations) walked through the dumped
// graph: the model state is tracked by following the edges, the real tree by applying the ops.
func treeRandom(args []string) int {
	fs := flag.NewFlagSet("tree-random", flag.ExitOnError)
	in := fs.String("dump", "", "dump file")
	n := fs.Int("histories", 50, "histories")
	length := fs.Int("len", 300, "operations per history")
	seed := fs.Int64("seed", 1, "seed")
	fs.Parse(args)
	states, edges, err := loadTreeDump(*in)
	if err != nil {
		return 2
	}
	out := map[string][]treeEdge{}
	for _, e := range edges {
		k := stateKey(e.Fs)
		out[k] = append(out[k], e)
	}
	rng := rand.New(rand.NewSource(*seed))
	rep := &util.Report{}
	for h := 0; h < *n; h++ {
		tr := topic.NewStandardTree()
		cur := ""
		var snaps []snapshot
		for i := 0; i < *length; i++ {
			es := out[cur]
			e := es[rng.Intn(len(es))]
			// bias against reset so that histories get deep
			if e.Op.Op == "reset" && rng.Intn(4) != 0 {
				continue
			}
			if rng.Intn(10) == 0 {
				snaps = append(snaps, takeSnapshots(tr, states[cur])...)
				if len(snaps) > 400 {
					snaps = snaps[200:]
				}
			}
			applyTreeOp(tr, e.Op)
			cur = stateKey(e.Ts)
			rep.Case()
			ctx := fmt.Sprintf("history %d step %d %s(%q,%d)", h, i, e.Op.Op, joinT(e.Op.T), e.Op.V)
			compareTree(rep, tr, states[cur], ctx)
			checkSnapshots(rep, snaps, ctx)
			if rep.Mismatches > 50 {
				break
			}
		}
	}
	rep.Print()
	return 0
}

// ---------------------------------------------------------------- C05: concurrent histories for TopicTreeLin.tla

func treeConc(args []string) int {
	fs := flag.NewFlagSet("tree-conc", flag.ExitOnError)
	out := fs.String("out", "", "ndjson history file")
	hist := fs.Int("histories", 20, "histories")
	seed := fs.Int64("seed", 1, "seed")
	maxThreads := fs.Int("threads", 4, "max goroutines")
	opsPer := fs.Int("ops", 6, "ops per goroutine")
	topicsFlag := fs.String("topics", `[["a"],["a","b"],["a","+"],["#"]]`, "topic universe")
	namesFlag := fs.String("names", `[["a"],["a","b"],["b"]]`, "query names")
	filtersFlag := fs.String("filters", `[["a"],["a","+"],["a","#"],["#"],["+"]]`, "query filters")
	mode := fs.String("mode", "mixed", "mixed: every goroutine issues random operations; long: one writer toggling few topics, spinning readers")
	fs.Parse(args)
	var topics, qnames, qfilters [][]string
	json.Unmarshal([]byte(*topicsFlag), &topics)
	json.Unmarshal([]byte(*namesFlag), &qnames)
	json.Unmarshal([]byte(*filtersFlag), &qfilters)
	f, err := os.Create(*out)
	if err != nil {
		return 2
	}
	defer f.Close()
	enc := json.NewEncoder(f)
	rep := &util.Report{}
	type ev = map[string]interface{}
	mk := func(e string, t int, op string, tp []string, v int) ev {
		if tp == nil {
			tp = []string{}
		}
		return ev{"ev": e, "th": t, "op": op, "t": tp, "v": v, "res": []int{}, "resv": 0}
	}
	for h := 1; h <= *hist; h++ {
		rng := rand.New(rand.NewSource(*seed*7919 + int64(h)))
		nthreads := 2 + rng.Intn(*maxThreads-1)
		tr := topic.NewStandardTree()
		var mu sync.Mutex
		var events []ev
		logev := func(e ev) {
			mu.Lock()
			e["h"] = h
			events = append(events, e)
			mu.Unlock()
		}
		logev(mk("begin", 0, "", nil, 0))
		var wg sync.WaitGroup
		gate := make(chan struct{})
		type plan struct {
			op string
			t  []string
			v  int
		}
		if *mode == "long" {
			nthreads = 2 + rng.Intn(2)
		}
		hot := topics[rng.Intn(len(topics))]
		for t := 1; t <= nthreads; t++ {
			var pl []plan
			for i := 0; i < *opsPer; i++ {
				p := plan{v: 1 + rng.Intn(2)}
				p.op = []string{"add", "add", "set", "remove", "empty", "clear", "get", "match", "search", "all", "count", "matchfirst", "searchfirst", "get", "match"}[rng.Intn(15)]
				if *mode == "long" {
					if t == 1 {
						p.op = []string{"set", "set", "add", "remove", "empty", "clear", "set", "add"}[rng.Intn(8)]
					} else {
						p.op = []string{"get", "match", "search", "all", "count", "matchfirst", "searchfirst", "count", "get"}[rng.Intn(9)]
					}
				}
				switch p.op {
				case "match", "matchfirst":
					p.t = qnames[rng.Intn(len(qnames))]
				case "search", "searchfirst":
					p.t = qfilters[rng.Intn(len(qfilters))]
				case "clear", "all", "count":
					p.t = []string{}
				default:
					p.t = topics[rng.Intn(len(topics))]
					if *mode == "long" && rng.Intn(4) != 0 {
						p.t = hot
					}
				}
				pl = append(pl, p)
			}
			wg.Add(1)
			go func(t int, pl []plan) {
				defer wg.Done()
				<-gate
				for _, p := range pl {
					logev(mk("inv", t, p.op, p.t, p.v))
					r := mk("ret", t, p.op, p.t, p.v)
					var res []interface{}
					switch p.op {
					case "add":
						tr.Add(joinT(p.t), p.v)
					case "set":
						tr.Set(joinT(p.t), p.v)
					case "remove":
						tr.Remove(joinT(p.t), p.v)
					case "empty":
						tr.Empty(joinT(p.t))
					case "clear":
						tr.Clear(p.v)
					case "get":
						// copy under no lock: the property says results are snapshots
						res = append([]interface{}{}, tr.Get(joinT(p.t))...)
					case "match":
						res = tr.Match(joinT(p.t))
					case "search":
						res = tr.Search(joinT(p.t))
					case "all":
						res = tr.All()
					case "count":
						r["resv"] = tr.Count()
					case "matchfirst":
						if v := tr.MatchFirst(joinT(p.t)); v != nil {
							r["resv"] = v.(int)
						}
					case "searchfirst":
						if v := tr.SearchFirst(joinT(p.t)); v != nil {
							r["resv"] = v.(int)
						}
					}
					vals, _ := sortedVals(res)
					if vals == nil {
						vals = []int{}
					}
					r["res"] = vals
					r["dup"] = len(vals) != len(uniq(vals))
					logev(r)
				}
			}(t, pl)
		}
		close(gate)
		wg.Wait()
		logev(mk("end", 0, "", nil, 0))
		for _, e := range events {
			if _, ok := e["dup"]; !ok {
				e["dup"] = false
			}
			enc.Encode(e)
		}
		rep.Case()
		if h == 1 && len(events) > 6 {
			rep.Sample(events[:6], 1)
		}
	}
	rep.Print()
	return 0
}

func uniq(l []int) []int {
	var out []int
	for i, v := range l {
		if i == 0 || v != l[i-1] {
			out = append(out, v)
		}
	}
	return out
}
