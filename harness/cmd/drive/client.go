package main

// Client conformance driver: the real client.Client talks over a harness-owned link to a
// scripted broker; its session is wrapped (hook-free), API calls are issued by driver
// goroutines, every future gets a waiter. One trace per scenario.

import (
	"bufio"
	"encoding/json"
	"errors"
	"flag"
	"fmt"
	"os"
	"sync"
	"time"

	"github.com/256dpi/gomqtt/client"
	"github.com/256dpi/gomqtt/packet"
	"github.com/256dpi/gomqtt/transport"

	"verif/harness/link"
	"verif/harness/trace"
	"verif/harness/util"
	"verif/harness/wrap"
)

func init() { register("client", clientDrive) }

type cConfig struct {
	Clean     bool           `json:"clean"`
	Early     bool           `json:"early"`
	NoValid   bool           `json:"novalidate"`
	KeepAlive string         `json:"keepalive"`
	AsyncBuf  bool           `json:"asyncbuf"`
	SessFail  map[string]int `json:"sessfail"`
	CbFail    []int          `json:"cbfail"`   // callback invocations (1-based, message callbacks only) that return an error
	GateNext  int            `json:"gatenext"` // hold the n-th NextID call until the connection has been cut and the processor has ended
	Deny      int            `json:"deny"`     // CONNACK return code the scripted broker answers with
	SubFail   bool           `json:"subfail"`  // SUBACK carries the failure code
	NoConnack bool           `json:"noconnack"`
	DialFail  int            `json:"dialfail"` // n-th dial fails
}

type cStep struct {
	Do    string          `json:"do"`
	Th    int             `json:"th"`
	Msg   *bMsg           `json:"msg"`
	Subs  [][]interface{} `json:"subs"`
	Tops  []string        `json:"topics"`
	Fault *link.Fault     `json:"fault"`
	N     int             `json:"n"`
	Mode  string          `json:"mode"`
	MS    int             `json:"ms"`
	Pkt   json.RawMessage `json:"pkt"`
	Clean *bool           `json:"clean"`
	TO    int             `json:"timeout_ms"`
	Bg    bool            `json:"bg"`
}

type cScript struct {
	ID     int     `json:"id"`
	Family string  `json:"family"`
	Mode   string  `json:"mode"`
	Config cConfig `json:"config"`
	Steps  []cStep `json:"steps"`
}

type cScenario struct {
	log     *trace.Log
	cfg     cConfig
	sess    *wrap.Session
	cl      *client.Client
	mu      sync.Mutex
	nlinks  int
	cur     *link.Link
	nextFut int
	nextAPI int
	pending map[string]bool // futures not yet observed done
	stuck   map[int]bool    // api calls not yet returned
	ncb     int
	ndial   int
	// scripted broker
	bauto       bool
	owed        []packet.Generic
	havesession bool
	readers     sync.WaitGroup
	gateCh      chan struct{}
	nnext       int
	idle        time.Duration
	// a connect that succeeded and has not been followed by the client's end yet (error callback, Close or Disconnect returned)
	live bool
}

type cDialer struct {
	sc    *cScenario
	fault *link.Fault
}

func (d *cDialer) Dial(url string) (transport.Conn, error) {
	sc := d.sc
	sc.mu.Lock()
	sc.ndial++
	fail := sc.cfg.DialFail == sc.ndial
	sc.nlinks++
	name := fmt.Sprintf("k%d", sc.nlinks)
	sc.mu.Unlock()
	if fail {
		sc.log.Add("dial", "c", name, "err", "refused")
		return nil, errors.New("connection refused (injected)")
	}
	l := link.New(sc.log, name, "c")
	l.Fault = d.fault
	l.AsyncBuffer = sc.cfg.AsyncBuf
	sc.mu.Lock()
	sc.cur = l
	sc.owed = nil
	sc.mu.Unlock()
	sc.log.Add("dial", "c", name, "err", "")
	sc.readers.Add(1)
	go sc.brokerReader(l)
	return link.Conn{L: l}, nil
}

// brokerReader is the scripted broker's side of one connection.
func (sc *cScenario) brokerReader(l *link.Link) {
	defer sc.readers.Done()
	for {
		pkt := l.PRecv()
		if pkt == nil {
			return
		}
		var resp packet.Generic
		switch t := pkt.(type) {
		case *packet.Connect:
			if sc.cfg.NoConnack {
				continue
			}
			ca := packet.NewConnack()
			ca.ReturnCode = packet.ConnackCode(sc.cfg.Deny)
			sc.mu.Lock()
			if t.CleanSession {
				sc.havesession = false
			}
			ca.SessionPresent = sc.havesession && sc.cfg.Deny == 0
			if !t.CleanSession && sc.cfg.Deny == 0 {
				sc.havesession = true
			}
			sc.mu.Unlock()
			l.PSend(ca)
			continue
		case *packet.Publish:
			if t.Message.QOS == 1 {
				resp = &packet.Puback{ID: t.ID}
			} else if t.Message.QOS == 2 {
				resp = &packet.Pubrec{ID: t.ID}
			}
		case *packet.Pubrel:
			resp = &packet.Pubcomp{ID: t.ID}
		case *packet.Subscribe:
			sa := packet.NewSuback()
			sa.ID = t.ID
			for _, s := range t.Subscriptions {
				if sc.cfg.SubFail {
					sa.ReturnCodes = append(sa.ReturnCodes, packet.QOSFailure)
				} else {
					sa.ReturnCodes = append(sa.ReturnCodes, s.QOS)
				}
			}
			resp = sa
		case *packet.Unsubscribe:
			resp = &packet.Unsuback{ID: t.ID}
		case *packet.Pingreq:
			resp = packet.NewPingresp()
		}
		if resp == nil {
			continue
		}
		sc.mu.Lock()
		auto := sc.bauto
		if !auto {
			sc.owed = append(sc.owed, resp)
		}
		sc.mu.Unlock()
		if auto {
			l.PSend(resp)
		}
	}
}

func (sc *cScenario) newClient() {
	c := client.New()
	c.Session = sc.sess
	c.Callback = func(msg *packet.Message, err error) error {
		if err != nil {
			sc.log.Add("cb.err", "err", err.Error())
			sc.mu.Lock()
			sc.live = false
			sc.mu.Unlock()
			return nil
		}
		sc.mu.Lock()
		sc.ncb++
		n := sc.ncb
		sc.mu.Unlock()
		ret := ""
		for _, k := range sc.cfg.CbFail {
			if k == n {
				ret = "callback refused"
			}
		}
		sc.log.Add("cb.call", "msg", link.MsgRec(msg), "n", n, "ret", ret)
		if ret != "" {
			return errors.New(ret)
		}
		return nil
	}
	sc.cl = c
	sc.log.Add("newclient")
}

// watch starts the waiter of a future and the accessor probes.
func (sc *cScenario) watch(kind string, f client.GenericFuture) string {
	sc.mu.Lock()
	sc.nextFut++
	name := fmt.Sprintf("f%d", sc.nextFut)
	sc.pending[name] = true
	sc.mu.Unlock()
	probe := func(when string) {
		defer func() {
			if r := recover(); r != nil {
				sc.log.Add("accessor.panic", "f", name, "when", when, "panic", fmt.Sprint(r))
			}
		}()
		switch t := f.(type) {
		case client.ConnectFuture:
			_ = t.SessionPresent()
			_ = t.ReturnCode()
		case client.SubscribeFuture:
			_ = t.ReturnCodes()
		}
	}
	probe("pending")
	go func() {
		err := f.Wait(30 * time.Second)
		st := "completed"
		if err != nil {
			st = "cancelled"
			if err.Error() == "future timeout" {
				st = "timeout"
			}
		}
		probe(st)
		sc.mu.Lock()
		delete(sc.pending, name)
		sc.mu.Unlock()
		sc.log.Add("fut.done", "f", name, "st", st, "kind", kind)
	}()
	return name
}

// api runs one API call in its own goroutine (a call that never returns must not wedge the driver).
func (sc *cScenario) api(method string, args map[string]interface{}, fn func() (string, error)) {
	sc.apiBg(false, method, args, fn)
}

func (sc *cScenario) apiBg(bg bool, method string, args map[string]interface{}, fn func() (string, error)) {
	sc.mu.Lock()
	sc.nextAPI++
	a := sc.nextAPI
	sc.stuck[a] = true
	sc.mu.Unlock()
	kv := []interface{}{"a", a, "m", method}
	for k, v := range args {
		kv = append(kv, k, v)
	}
	sc.log.Add("api.call", kv...)
	done := make(chan struct{})
	go func() {
		defer close(done)
		defer func() {
			if r := recover(); r != nil {
				sc.log.Add("api.panic", "a", a, "m", method, "panic", fmt.Sprint(r))
			}
		}()
		fut, err := fn()
		sc.mu.Lock()
		delete(sc.stuck, a)
		sc.mu.Unlock()
		sc.log.Add("api.ret", "a", a, "m", method, "err", errS(err), "fut", fut)
	}()
	if bg {
		return
	}
	select {
	case <-done:
	case <-time.After(3 * time.Second):
	}
}

func errS(err error) string {
	if err == nil {
		return ""
	}
	return err.Error()
}

func (sc *cScenario) step(st cStep, wait bool) {
	switch st.Do {
	case "newclient":
		// the previous client object must have ended (its connection was cut or closed by the script): wait for its error callback
		// or the return of Close/Disconnect, not only for a quiet log (a loaded machine is quiet for other reasons)
		for i := 0; i < 600; i++ {
			sc.mu.Lock()
			live := sc.live
			sc.mu.Unlock()
			if !live {
				break
			}
			time.Sleep(5 * time.Millisecond)
		}
		sc.log.WaitIdle(3*sc.idle, 2*time.Second)
		sc.newClient()
	case "connect":
		cfg := client.NewConfigWithClientID("mem://broker", "cid")
		cfg.CleanSession = sc.cfg.Clean
		if st.Clean != nil {
			cfg.CleanSession = *st.Clean
		}
		cfg.KeepAlive = "0s"
		if sc.cfg.KeepAlive != "" {
			cfg.KeepAlive = sc.cfg.KeepAlive
		}
		cfg.ValidateSubs = !sc.cfg.NoValid
		cfg.AlwaysAnnounceOnPublish = sc.cfg.Early
		cfg.Dialer = &cDialer{sc: sc, fault: st.Fault}
		c := sc.cl
		sc.api("connect", map[string]interface{}{"clean": cfg.CleanSession}, func() (string, error) {
			f, err := c.Connect(cfg)
			if err != nil {
				return "", err
			}
			sc.mu.Lock()
			sc.live = true
			sc.mu.Unlock()
			return sc.watch("connect", f), nil
		})
	case "publish":
		m := st.Msg.message()
		c := sc.cl
		sc.apiBg(st.Bg, "publish", map[string]interface{}{"msg": link.MsgRec(&m)}, func() (string, error) {
			f, err := c.PublishMessage(&m)
			if err != nil {
				return "", err
			}
			return sc.watch("publish", f), nil
		})
	case "subscribe":
		var subs []packet.Subscription
		for _, x := range st.Subs {
			subs = append(subs, packet.Subscription{Topic: x[0].(string), QOS: packet.QOS(int(x[1].(float64)))})
		}
		c := sc.cl
		sc.api("subscribe", map[string]interface{}{"n": len(subs)}, func() (string, error) {
			f, err := c.SubscribeMultiple(subs)
			if err != nil {
				return "", err
			}
			return sc.watch("subscribe", f), nil
		})
	case "unsubscribe":
		c := sc.cl
		sc.api("unsubscribe", map[string]interface{}{"n": len(st.Tops)}, func() (string, error) {
			f, err := c.UnsubscribeMultiple(st.Tops)
			if err != nil {
				return "", err
			}
			return sc.watch("unsubscribe", f), nil
		})
	case "disconnect":
		c := sc.cl
		sc.api("disconnect", map[string]interface{}{"timeout": st.TO}, func() (string, error) {
			if st.TO > 0 {
				return "", c.Disconnect(time.Duration(st.TO) * time.Millisecond)
			}
			return "", c.Disconnect()
		})
		sc.mu.Lock()
		sc.live = false
		sc.mu.Unlock()
	case "close":
		c := sc.cl
		sc.api("close", nil, func() (string, error) { return "", c.Close() })
		sc.mu.Lock()
		sc.live = false
		sc.mu.Unlock()
	case "b.mode":
		sc.mu.Lock()
		sc.bauto = st.Mode != "manual"
		sc.mu.Unlock()
	case "b.ack":
		for i := 0; i < st.N || st.N == 0; i++ {
			sc.mu.Lock()
			if len(sc.owed) == 0 {
				sc.mu.Unlock()
				break
			}
			var pkt packet.Generic
			if st.Mode == "last" {
				pkt = sc.owed[len(sc.owed)-1]
				sc.owed = sc.owed[:len(sc.owed)-1]
			} else {
				pkt = sc.owed[0]
				sc.owed = sc.owed[1:]
			}
			l := sc.cur
			sc.mu.Unlock()
			if l != nil {
				l.PSend(pkt)
			}
			if wait {
				sc.log.WaitIdle(sc.idle, 2*time.Second)
			}
		}
	case "b.send":
		sc.mu.Lock()
		l := sc.cur
		sc.mu.Unlock()
		if g := rawPacket(st.Pkt); g != nil && l != nil {
			l.PSend(g)
		}
	case "b.close":
		sc.mu.Lock()
		l := sc.cur
		sc.mu.Unlock()
		if l != nil {
			l.PClose()
		}
	case "b.cut":
		sc.mu.Lock()
		l := sc.cur
		sc.mu.Unlock()
		if l != nil {
			l.Cut("script")
		}
	case "release":
		select {
		case sc.gateCh <- struct{}{}:
		default:
		}
	case "wait":
		time.Sleep(time.Duration(st.MS) * time.Millisecond)
	}
	if wait && st.Do != "wait" && st.Do != "b.mode" {
		sc.log.WaitIdle(sc.idle, 2*time.Second)
	}
	if wait && (st.Do == "close" || st.Do == "disconnect") {
		// after Close / Disconnect returned every future must be resolved: report what is still pending
		sc.log.WaitIdle(3*sc.idle, 2*time.Second)
		sc.mu.Lock()
		pend := []string{}
		for f := range sc.pending {
			pend = append(pend, f)
		}
		sc.mu.Unlock()
		sc.log.Add("probe", "pending", pend)
	}
}

func runClientScenario(s *cScript, slow int) *trace.Log {
	log := trace.New(s.ID)
	sc := &cScenario{log: log, cfg: s.Config, pending: map[string]bool{}, stuck: map[int]bool{}, bauto: true,
		gateCh: make(chan struct{}, 1), idle: time.Duration(4*slow) * time.Millisecond}
	sc.sess = wrap.NewSession(log, "cs")
	sc.sess.Fail = s.Config.SessFail
	if s.Config.GateNext > 0 {
		sc.sess.Gate = func() {
			sc.mu.Lock()
			sc.nnext++
			hold := sc.nnext == s.Config.GateNext
			sc.mu.Unlock()
			if hold {
				log.Add("gate.hold")
				select {
				case <-sc.gateCh:
				case <-time.After(2 * time.Second):
				}
				log.Add("gate.release")
			}
		}
	}
	log.Add("config", "script", s.ID, "family", s.Family, "clean", s.Config.Clean, "early", s.Config.Early, "validate", !s.Config.NoValid,
		"asyncbuf", s.Config.AsyncBuf)
	sc.newClient()
	if s.Mode == "concurrent" {
		byTh := map[int][]cStep{}
		var order []int
		for _, st := range s.Steps {
			if _, ok := byTh[st.Th]; !ok {
				order = append(order, st.Th)
			}
			byTh[st.Th] = append(byTh[st.Th], st)
		}
		var wg sync.WaitGroup
		for _, th := range order {
			wg.Add(1)
			go func(steps []cStep) {
				defer wg.Done()
				for _, st := range steps {
					sc.step(st, false)
				}
			}(byTh[th])
		}
		wg.Wait()
	} else {
		for _, st := range s.Steps {
			sc.step(st, true)
		}
	}
	log.WaitIdle(time.Duration(40*slow)*time.Millisecond, 6*time.Second)
	sc.mu.Lock()
	pend := []string{}
	for f := range sc.pending {
		pend = append(pend, f)
	}
	stuck := []int{}
	for a := range sc.stuck {
		stuck = append(stuck, a)
	}
	sc.mu.Unlock()
	log.Add("settle", "pending", pend, "stuck", stuck)
	// end: the scripted broker goes away
	sc.mu.Lock()
	l := sc.cur
	sc.mu.Unlock()
	if l != nil {
		l.PClose()
	}
	log.WaitIdle(time.Duration(20*slow)*time.Millisecond, 3*time.Second)
	log.Add("end")
	return log
}

func clientDrive(args []string) int {
	fs := flag.NewFlagSet("client", flag.ExitOnError)
	in := fs.String("scripts", "", "ndjson scripts")
	out := fs.String("out", "", "ndjson traces")
	slow := fs.Int("slow", 1, "timing multiplier")
	shard := fs.Int("shard", 0, "shard")
	shards := fs.Int("shards", 1, "shards")
	fs.Parse(args)
	f, err := os.Create(*out)
	if err != nil {
		fmt.Fprintln(os.Stderr, err)
		return 2
	}
	defer f.Close()
	w := bufio.NewWriterSize(f, 1<<20)
	defer w.Flush()
	rep := &util.Report{}
	idx := 0
	err = util.ReadLines(*in, func(line []byte) error {
		idx++
		if (idx-1)%*shards != *shard {
			return nil
		}
		var s cScript
		if err := json.Unmarshal(line, &s); err != nil {
			return fmt.Errorf("bad script: %v", err)
		}
		fmt.Fprintf(os.Stderr, "RUNNING script %d\n", s.ID)
		log := runClientScenario(&s, *slow)
		log.Write(w)
		w.Flush()
		rep.Case()
		return nil
	})
	if err != nil {
		fmt.Fprintln(os.Stderr, err)
		return 2
	}
	rep.Print()
	return 0
}
