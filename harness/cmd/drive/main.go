// Command drive is the Go side of the conformance binding: it replays
// TLC-generated transitions / vectors / scenarios on the real gomqtt code
// and records traces of the real code for TLC to validate.
package main

import (
	"fmt"
	"os"
)

type command func(args []string) int

var commands = map[string]command{}

func register(name string, c command) { commands[name] = c }

func main() {
	if len(os.Args) < 2 {
		fmt.Fprintln(os.Stderr, "usage: drive <command> [flags]")
		os.Exit(2)
	}
	c, ok := commands[os.Args[1]]
	if !ok {
		fmt.Fprintln(os.Stderr, "unknown command", os.Args[1])
		os.Exit(2)
	}
	os.Exit(c(os.Args[2:]))
}
