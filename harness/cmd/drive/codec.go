package main

// C01 / C02: the real packet codec against MQTTCodec.tla.

import (
	"bufio"
	"bytes"
	"encoding/json"
	"flag"
	"fmt"
	"io"
	"math/rand"
	"os"
	"reflect"

	"github.com/256dpi/gomqtt/packet"

	"verif/harness/util"
)

func init() {
	register("codec-vectors", codecVectors)
	register("codec-record", codecRecord)
	register("decode-record", decodeRecord)
}

type run struct {
	N int `json:"n"`
	B int `json:"b"`
}

func expandRuns(rs []run) []byte {
	n := 0
	for _, r := range rs {
		n += r.N
	}
	out := make([]byte, 0, n)
	for _, r := range rs {
		for i := 0; i < r.N; i++ {
			out = append(out, byte(r.B))
		}
	}
	return out
}

type vecSub struct {
	Topic []run `json:"topic"`
	QOS   int   `json:"qos"`
}

type vecPkt struct {
	T        int      `json:"t"`
	Dup      bool     `json:"dup"`
	QOS      int      `json:"qos"`
	Ret      bool     `json:"ret"`
	ID       int      `json:"id"`
	Topic    []run    `json:"topic"`
	Payload  []run    `json:"payload"`
	SP       bool     `json:"sp"`
	RC       int      `json:"rc"`
	CID      []run    `json:"cid"`
	KA       int      `json:"ka"`
	Clean    bool     `json:"clean"`
	Ver      int      `json:"ver"`
	Will     bool     `json:"will"`
	WTopic   []run    `json:"wtopic"`
	WPayload []run    `json:"wpayload"`
	WQOS     int      `json:"wqos"`
	WRet     bool     `json:"wret"`
	User     []run    `json:"user"`
	Pass     []run    `json:"pass"`
	Subs     []vecSub `json:"subs"`
	Codes    []run    `json:"codes"`
	Topics   [][]run  `json:"topics"`
}

type vector struct {
	P    vecPkt `json:"p"`
	Wire []run  `json:"wire"`
	Len  int    `json:"len"`
	RL   int    `json:"rl"`
}

// build constructs the library's packet value for a vector through Type.New().
func (v *vecPkt) build() packet.Generic {
	g, err := packet.Type(v.T).New()
	if err != nil {
		panic(err)
	}
	switch p := g.(type) {
	case *packet.Connect:
		p.Version = byte(v.Ver)
		p.CleanSession = v.Clean
		p.KeepAlive = uint16(v.KA)
		p.ClientID = string(expandRuns(v.CID))
		p.Username = string(expandRuns(v.User))
		p.Password = string(expandRuns(v.Pass))
		if v.Will {
			p.Will = &packet.Message{Topic: string(expandRuns(v.WTopic)), Payload: expandRuns(v.WPayload), QOS: packet.QOS(v.WQOS), Retain: v.WRet}
			if len(p.Will.Payload) == 0 {
				p.Will.Payload = nil
			}
		}
	case *packet.Connack:
		p.SessionPresent = v.SP
		p.ReturnCode = packet.ConnackCode(v.RC)
	case *packet.Publish:
		p.Dup = v.Dup
		p.ID = packet.ID(v.ID)
		p.Message = packet.Message{Topic: string(expandRuns(v.Topic)), Payload: expandRuns(v.Payload), QOS: packet.QOS(v.QOS), Retain: v.Ret}
		if len(p.Message.Payload) == 0 {
			p.Message.Payload = nil
		}
	case *packet.Puback:
		p.ID = packet.ID(v.ID)
	case *packet.Pubrec:
		p.ID = packet.ID(v.ID)
	case *packet.Pubrel:
		p.ID = packet.ID(v.ID)
	case *packet.Pubcomp:
		p.ID = packet.ID(v.ID)
	case *packet.Unsuback:
		p.ID = packet.ID(v.ID)
	case *packet.Subscribe:
		p.ID = packet.ID(v.ID)
		for _, s := range v.Subs {
			p.Subscriptions = append(p.Subscriptions, packet.Subscription{Topic: string(expandRuns(s.Topic)), QOS: packet.QOS(s.QOS)})
		}
	case *packet.Suback:
		p.ID = packet.ID(v.ID)
		for _, c := range expandRuns(v.Codes) {
			p.ReturnCodes = append(p.ReturnCodes, packet.QOS(c))
		}
	case *packet.Unsubscribe:
		p.ID = packet.ID(v.ID)
		for _, t := range v.Topics {
			p.Topics = append(p.Topics, string(expandRuns(t)))
		}
	}
	return g
}

func ints(b []byte) []int {
	out := make([]int, len(b))
	for i, c := range b {
		out[i] = int(c)
	}
	return out
}

// explicit is the full-record JSON form of a packet (mirror of Blank in MQTTCodec.tla).
func explicit(g packet.Generic) map[string]interface{} {
	e := map[string]interface{}{"t": int(g.Type()), "dup": false, "qos": 0, "ret": false, "id": 0, "topic": []int{}, "payload": []int{},
		"sp": false, "rc": 0, "cid": []int{}, "ka": 0, "clean": false, "ver": 0, "will": false, "wtopic": []int{}, "wpayload": []int{},
		"wqos": 0, "wret": false, "user": []int{}, "pass": []int{}, "subs": []interface{}{}, "codes": []int{}, "topics": []interface{}{}}
	switch p := g.(type) {
	case *packet.Connect:
		e["ver"] = int(p.Version)
		e["clean"] = p.CleanSession
		e["ka"] = int(p.KeepAlive)
		e["cid"] = ints([]byte(p.ClientID))
		e["user"] = ints([]byte(p.Username))
		e["pass"] = ints([]byte(p.Password))
		if p.Will != nil {
			e["will"] = true
			e["wtopic"] = ints([]byte(p.Will.Topic))
			e["wpayload"] = ints(p.Will.Payload)
			e["wqos"] = int(p.Will.QOS)
			e["wret"] = p.Will.Retain
		}
	case *packet.Connack:
		e["sp"] = p.SessionPresent
		e["rc"] = int(p.ReturnCode)
	case *packet.Publish:
		e["dup"] = p.Dup
		e["qos"] = int(p.Message.QOS)
		e["ret"] = p.Message.Retain
		e["id"] = int(p.ID)
		e["topic"] = ints([]byte(p.Message.Topic))
		e["payload"] = ints(p.Message.Payload)
	case *packet.Subscribe:
		e["id"] = int(p.ID)
		l := []interface{}{}
		for _, s := range p.Subscriptions {
			l = append(l, map[string]interface{}{"topic": ints([]byte(s.Topic)), "qos": int(s.QOS)})
		}
		e["subs"] = l
	case *packet.Suback:
		e["id"] = int(p.ID)
		c := []int{}
		for _, x := range p.ReturnCodes {
			c = append(c, int(x))
		}
		e["codes"] = c
	case *packet.Unsubscribe:
		e["id"] = int(p.ID)
		l := []interface{}{}
		for _, s := range p.Topics {
			l = append(l, ints([]byte(s)))
		}
		e["topics"] = l
	default:
		if id, ok := packet.GetID(g); ok {
			e["id"] = int(id)
		}
	}
	return e
}

func describe(v *vector) string {
	return fmt.Sprintf("type %d rl=%d len=%d id=%d qos=%d dup=%v ret=%v", v.P.T, v.RL, v.Len, v.P.ID, v.P.QOS, v.P.Dup, v.P.Ret)
}

// normalize makes nil/empty slices comparable for DeepEqual
func normalize(g packet.Generic) packet.Generic {
	switch p := g.(type) {
	case *packet.Publish:
		if len(p.Message.Payload) == 0 {
			p.Message.Payload = nil
		}
	case *packet.Connect:
		if p.Will != nil && len(p.Will.Payload) == 0 {
			p.Will.Payload = nil
		}
	}
	return g
}

type countingWriter struct{ buf bytes.Buffer }

func (w *countingWriter) Write(p []byte) (int, error) { return w.buf.Write(p) }

func codecVectors(args []string) int {
	fs := flag.NewFlagSet("codec-vectors", flag.ExitOnError)
	in := fs.String("in", "", "vectors.ndjson from TLC")
	fs.Parse(args)
	rep := &util.Report{}
	types := map[int]int{}
	var small []*vector
	nontrivial := 0
	err := util.ReadLines(*in, func(line []byte) error {
		v := &vector{}
		if err := json.Unmarshal(line, v); err != nil {
			return err
		}
		rep.Case()
		types[v.P.T]++
		if v.RL > 2 {
			nontrivial++
		}
		want := expandRuns(v.Wire)
		if len(want) != v.Len {
			return fmt.Errorf("vector inconsistent: wire %d bytes, len %d", len(want), v.Len)
		}
		g := v.P.build()
		func() {
			defer func() {
				if r := recover(); r != nil {
					rep.Mismatch("%s: panic %v", describe(v), r)
				}
			}()
			// 1. Len() equals the reference length
			if g.Len() != v.Len {
				rep.Mismatch("%s: Len() = %d, reference %d", describe(v), g.Len(), v.Len)
			}
			// 2. Encode into a buffer of exactly the reference length
			buf := make([]byte, v.Len)
			n, err := g.Encode(buf)
			if err != nil || n != v.Len {
				rep.Mismatch("%s: Encode = (%d, %v), reference writes %d bytes", describe(v), n, err, v.Len)
				return
			}
			if !bytes.Equal(buf, want) {
				i := 0
				for i < len(want) && buf[i] == want[i] {
					i++
				}
				rep.Mismatch("%s: encoded bytes differ from the reference wire image at offset %d (got %#x, want %#x)", describe(v), i, buf[i], want[i])
				return
			}
			// 3. Encode into a larger dirty buffer writes nothing beyond len
			big := bytes.Repeat([]byte{0xEE}, v.Len+16)
			n, err = g.Encode(big)
			if err != nil || n != v.Len || !bytes.Equal(big[:v.Len], want) {
				rep.Mismatch("%s: Encode into a larger buffer = (%d, %v) or bytes differ", describe(v), n, err)
			}
			for _, c := range big[v.Len:] {
				if c != 0xEE {
					rep.Mismatch("%s: Encode wrote beyond Len()", describe(v))
					break
				}
			}
			// 4. Decode consumes everything and yields an equal packet
			d, _ := packet.Type(v.P.T).New()
			n, err = d.Decode(want)
			if err != nil || n != v.Len {
				rep.Mismatch("%s: Decode of the reference image = (%d, %v), expected to consume %d", describe(v), n, err, v.Len)
				return
			}
			if !reflect.DeepEqual(normalize(d), normalize(g)) {
				rep.Mismatch("%s: decoded packet differs from the original: %.200s vs %.200s", describe(v), d.String(), g.String())
			}
			dt, dl := packet.DetectPacket(want)
			if dt != v.Len || int(dl) != v.P.T {
				rep.Mismatch("%s: DetectPacket = (%d, %d)", describe(v), dt, dl)
			}
		}()
		if v.Len < 70000 {
			small = append(small, v)
		}
		if rep.Cases%97 == 5 && v.Len < 40 {
			rep.Sample(map[string]interface{}{"packet": g.String(), "wire": fmt.Sprintf("%x", want)}, 3)
		}
		return nil
	})
	if err != nil {
		fmt.Fprintln(os.Stderr, err)
		return 2
	}
	// 5. stream encoder: consecutive packets of decreasing size through one Encoder (pooled buffers must not leak stale bytes)
	for round := 0; round < 3 && len(small) > 1; round++ {
		w := &countingWriter{}
		enc := packet.NewEncoder(w)
		var wantAll []byte
		order := make([]*vector, len(small))
		copy(order, small)
		switch round {
		case 0: // decreasing size
			for i := 0; i < len(order); i++ {
				for j := i + 1; j < len(order); j++ {
					if order[j].Len > order[i].Len {
						order[i], order[j] = order[j], order[i]
					}
				}
			}
		case 1: // alternate big / small
			for i := 0; i+1 < len(order); i += 2 {
				if order[i].Len < order[i+1].Len {
					order[i], order[i+1] = order[i+1], order[i]
				}
			}
		}
		for i, v := range order {
			if err := enc.Write(v.P.build(), i%2 == 0); err != nil {
				rep.Mismatch("stream encoder: Write(%s) failed: %v", describe(v), err)
			}
			wantAll = append(wantAll, expandRuns(v.Wire)...)
		}
		enc.Flush()
		rep.Case()
		if !bytes.Equal(w.buf.Bytes(), wantAll) {
			rep.Mismatch("stream encoder round %d: writer received %d bytes that differ from the concatenated reference images (%d bytes)", round, w.buf.Len(), len(wantAll))
		}
		// and back through the stream decoder
		dec := packet.NewDecoder(bytes.NewReader(wantAll))
		for _, v := range order {
			g, err := dec.Read()
			if err != nil {
				rep.Mismatch("stream decoder: %v at %s", err, describe(v))
				break
			}
			if !reflect.DeepEqual(normalize(g), normalize(v.P.build())) {
				rep.Mismatch("stream decoder: packet differs at %s", describe(v))
				break
			}
		}
		if _, err := dec.Read(); err != io.EOF {
			rep.Mismatch("stream decoder: expected EOF after the last packet, got %v", err)
		}
	}
	rep.Set("types", types)
	rep.Set("nontrivial", nontrivial)
	rep.Print()
	return 0
}

// ---------------------------------------------------------------- random well-formed packets (code -> spec)

var boundarySizes = []int{0, 1, 2, 3, 100, 120, 121, 122, 123, 124, 125, 126, 127, 128, 129, 130, 200}

func randBytes(rng *rand.Rand, n int) []byte {
	b := make([]byte, n)
	for i := range b {
		b[i] = byte(rng.Intn(256))
	}
	return b
}

func randStr(rng *rand.Rand, min int) string {
	n := boundarySizes[rng.Intn(len(boundarySizes))]
	if rng.Intn(3) == 0 {
		n = rng.Intn(12)
	}
	if n < min {
		n = min
	}
	return string(randBytes(rng, n))
}

func randID(rng *rand.Rand) packet.ID {
	return packet.ID([]int{1, 2, 255, 256, 65534, 65535, 1 + rng.Intn(65535)}[rng.Intn(7)])
}

func randPacket(rng *rand.Rand) packet.Generic {
	t := packet.Type(1 + rng.Intn(14))
	g, _ := t.New()
	switch p := g.(type) {
	case *packet.Connect:
		p.Version = []byte{3, 4}[rng.Intn(2)]
		p.CleanSession = rng.Intn(2) == 0
		p.KeepAlive = uint16(rng.Intn(65536))
		p.ClientID = randStr(rng, 0)
		if p.ClientID == "" {
			p.CleanSession = true
		}
		if rng.Intn(2) == 0 {
			p.Username = randStr(rng, 1)
			if rng.Intn(2) == 0 {
				p.Password = randStr(rng, 1)
			}
		}
		if rng.Intn(2) == 0 {
			p.Will = &packet.Message{Topic: randStr(rng, 1), Payload: []byte(randStr(rng, 0)), QOS: packet.QOS(rng.Intn(3)), Retain: rng.Intn(2) == 0}
		}
	case *packet.Connack:
		p.SessionPresent = rng.Intn(2) == 0
		p.ReturnCode = packet.ConnackCode(rng.Intn(6))
	case *packet.Publish:
		p.Dup = rng.Intn(2) == 0
		p.Message = packet.Message{Topic: randStr(rng, 1), Payload: []byte(randStr(rng, 0)), QOS: packet.QOS(rng.Intn(3)), Retain: rng.Intn(2) == 0}
		if p.Message.QOS > 0 {
			p.ID = randID(rng)
		}
	case *packet.Puback:
		p.ID = randID(rng)
	case *packet.Pubrec:
		p.ID = randID(rng)
	case *packet.Pubrel:
		p.ID = randID(rng)
	case *packet.Pubcomp:
		p.ID = randID(rng)
	case *packet.Unsuback:
		p.ID = randID(rng)
	case *packet.Subscribe:
		p.ID = randID(rng)
		for i := 0; i < 1+rng.Intn(4); i++ {
			p.Subscriptions = append(p.Subscriptions, packet.Subscription{Topic: randStr(rng, 0), QOS: packet.QOS(rng.Intn(3))})
		}
	case *packet.Suback:
		p.ID = randID(rng)
		for i := 0; i < 1+rng.Intn(130); i++ {
			p.ReturnCodes = append(p.ReturnCodes, []packet.QOS{0, 1, 2, 128}[rng.Intn(4)])
		}
	case *packet.Unsubscribe:
		p.ID = randID(rng)
		for i := 0; i < 1+rng.Intn(4); i++ {
			p.Topics = append(p.Topics, randStr(rng, 0))
		}
	}
	return g
}

func codecRecord(args []string) int {
	fs := flag.NewFlagSet("codec-record", flag.ExitOnError)
	out := fs.String("out", "", "ndjson output")
	n := fs.Int("n", 2000, "packets")
	seed := fs.Int64("seed", 1, "seed")
	fs.Parse(args)
	rng := rand.New(rand.NewSource(*seed))
	f, err := os.Create(*out)
	if err != nil {
		return 2
	}
	defer f.Close()
	enc := json.NewEncoder(f)
	rep := &util.Report{}
	for i := 0; i < *n; i++ {
		g := randPacket(rng)
		l := g.Len()
		buf := make([]byte, l+8)
		for j := range buf {
			buf[j] = 0xEE
		}
		nn, err := g.Encode(buf)
		rep.Case()
		if err != nil {
			rep.Mismatch("Encode of well-formed %.150s failed: %v", g.String(), err)
			continue
		}
		if nn != l {
			rep.Mismatch("Encode of %.150s wrote %d bytes, Len() = %d", g.String(), nn, l)
		}
		enc.Encode(map[string]interface{}{"i": i, "p": explicit(g), "bytes": ints(buf[:nn]), "len": l})
		if i < 2 {
			rep.Sample(map[string]interface{}{"packet": fmt.Sprintf("%.120s", g.String()), "bytes": fmt.Sprintf("%.80x", buf[:nn])}, 2)
		}
	}
	rep.Print()
	return 0
}

// ---------------------------------------------------------------- arbitrary bytes through the decoders (C02)

type decRec struct {
	I    int                    `json:"i"`
	Kind string                 `json:"kind"`
	B    interface{}            `json:"b,omitempty"` // []int (never omitted: an empty []int is a non-nil interface value)
	BR   []run                  `json:"br,omitempty"`
	PLen int                    `json:"plen"`
	OK   bool                   `json:"ok"`
	N    int                    `json:"n"`
	P    map[string]interface{} `json:"p,omitempty"`
}

var blankPkt = func() map[string]interface{} {
	e := explicit(packet.NewPingreq())
	e["t"] = 0
	return e
}()

func decodeRecord(args []string) int {
	fs := flag.NewFlagSet("decode-record", flag.ExitOnError)
	out := fs.String("out", "", "ndjson output")
	vectors := fs.String("vectors", "", "vectors.ndjson (valid encodings to mutate)")
	seed := fs.Int64("seed", 1, "seed")
	nrand := fs.Int("random", 5000, "random byte strings")
	nmut := fs.Int("mutations", 40, "random mutations per vector (in addition to the systematic ones)")
	headers := fs.Bool("headers", true, "enumerate the header space")
	corpus := fs.String("corpus", "", "directory with extra inputs (fuzzing corpus), one file per input")
	full := fs.Bool("full", false, "thorough tier: complete header enumeration, all five presentations of every input")
	fs.Parse(args)
	rng := rand.New(rand.NewSource(*seed))
	f, err := os.Create(*out)
	if err != nil {
		return 2
	}
	defer f.Close()
	bw := bufio.NewWriterSize(f, 1<<20)
	defer bw.Flush()
	w := json.NewEncoder(bw)
	rep := &util.Report{}
	count := 0
	cat := map[string]int{}
	curCat := "headers"
	accepted := 0
	seen := map[string]bool{}
	tails := [][]byte{{0xC0, 0x00}, {0x00, 0x01, 0x61, 0x02, 0x30, 0x05, 0x00, 0x01, 0x62, 0x63, 0x64, 0xFF, 0x80}}

	one := func(kind string, b []byte) {
		rec := decRec{I: count, Kind: kind, B: ints(b), N: 0}
		count++
		func() {
			defer func() {
				if r := recover(); r != nil {
					rep.Mismatch("panic while decoding %x (%s): %v", b, kind, r)
				}
			}()
			if kind == "stream" {
				dec := packet.NewDecoder(bytes.NewReader(b))
				g, err := dec.Read()
				if err == nil {
					rec.OK = true
					rec.P = explicit(g)
					rec.N = -1
				}
				return
			}
			src := append([]byte{}, b...)
			dl, dt := packet.DetectPacket(src)
			_ = dl
			g, err := dt.New()
			if err != nil {
				return
			}
			n, err := g.Decode(src)
			if n > len(src) {
				rep.Mismatch("Decode of %x reports %d bytes consumed, %d supplied", b, n, len(src))
			}
			if err != nil {
				return
			}
			rec.OK = true
			rec.N = n
			rec.P = explicit(g)
			if dl != n && dt != packet.CONNECT && dt != packet.CONNACK {
				rep.Mismatch("DetectPacket(%x) = %d but Decode consumed %d", b, dl, n)
			}
			// ownership: later reuse of the input buffer must not change the packet
			before, _ := json.Marshal(rec.P)
			for i := range src {
				src[i] ^= 0xFF
			}
			after, _ := json.Marshal(explicit(g))
			if !bytes.Equal(before, after) {
				rep.Mismatch("decoded packet changed when the source buffer %x was overwritten (aliasing): %s -> %s", b, before, after)
			}
			// every admitted application message can be encoded again
			switch p := g.(type) {
			case *packet.Publish:
				if _, err := p.Encode(make([]byte, p.Len())); err != nil {
					rep.Mismatch("admitted PUBLISH %x cannot be encoded again: %v", b, err)
				}
			case *packet.Connect:
				if p.Will != nil {
					fw := packet.NewPublish()
					fw.Message = *p.Will
					fw.ID = 1
					if _, err := fw.Encode(make([]byte, fw.Len())); err != nil {
						rep.Mismatch("admitted will of CONNECT %x cannot be published: %v", b, err)
					}
				}
			}
		}()
		if rec.OK {
			accepted++
		}
		w.Encode(rec)
	}
	input := func(b []byte) {
		if len(b) > 6000 {
			return
		}
		k := string(b)
		if seen[k] {
			return
		}
		seen[k] = true
		rep.Case()
		cat[curCat]++
		one("raw", b)
		one("raw", append(append([]byte{}, b...), tails[1]...))
		one("stream", b)
		if *full || curCat != "headers" {
			one("raw", append(append([]byte{}, b...), tails[0]...))
			one("stream", append(append([]byte{}, b...), tails[1]...))
		}
	}

	// (a) header space: 16 types x 16 flags x variable-length integers over a byte alphabet x short bodies
	if *headers {
		alpha := []byte{0x00, 0x01, 0x02, 0x7F, 0x80, 0x81, 0xFF}
		bodies := [][]byte{{}, {0}, {0, 0}, {0, 1}, {0, 1, 0x61}, {0, 0, 0, 1}, {0, 1, 0x61, 0, 1}, {0, 1, 0x61, 0, 1, 0x62}, {0, 1, 0x61, 0},
			{0, 4, 'M', 'Q', 'T', 'T', 4, 2, 0, 0, 0, 0}, {0, 4, 'M', 'Q', 'T', 'T', 4, 2, 0, 0, 0, 1, 'a'}, {1, 0}, {0, 5}, {0, 1, 2}, {0, 7, 0x80}, {0, 2, 0x61}}
		var varints [][]byte
		for _, a := range alpha {
			varints = append(varints, []byte{a})
			for _, b := range alpha {
				varints = append(varints, []byte{a, b})
				for _, c := range alpha {
					varints = append(varints, []byte{a, b, c})
					for _, d := range []byte{0x00, 0x01, 0x7F, 0x80, 0xFF} {
						varints = append(varints, []byte{a, b, c, d})
					}
				}
			}
		}
		varints = append(varints, []byte{0x80, 0x80, 0x80, 0x80, 0x01}, []byte{0xFF, 0xFF, 0xFF, 0xFF, 0x7F})
		for first := 0; first < 256; first++ {
			input([]byte{byte(first)})
			for vi, v := range varints {
				if len(v) > 2 && (first%16 != 0 && first%16 != 2 && first>>4 != 3) && vi%5 != 0 {
					continue // keep long varints for plausible flag nibbles, sample the rest
				}
				if !*full && len(v) > 2 && (vi+first)%23 != 0 {
					continue // quick tier: a rotating sample of the 3- and 4-byte integers
				}
				h := append([]byte{byte(first)}, v...)
				input(h)
				if len(v) == 1 || (*full && len(v) == 2) {
					for _, body := range bodies {
						input(append(append([]byte{}, h...), body...))
					}
				}
			}
			// exact small remaining lengths with every body
			for _, body := range bodies {
				input(append([]byte{byte(first), byte(len(body))}, body...))
				input(append([]byte{byte(first), byte(len(body) + 1)}, body...))
				if len(body) > 0 {
					input(append([]byte{byte(first), byte(len(body) - 1)}, body...))
				}
			}
		}
	}
	// (b) structure-aware mutations of valid encodings
	curCat = "mutations"
	if *vectors != "" {
		var valid [][]byte
		util.ReadLines(*vectors, func(line []byte) error {
			var v vector
			if json.Unmarshal(line, &v) == nil && v.Len <= 300 {
				valid = append(valid, expandRuns(v.Wire))
			}
			return nil
		})
		// add a few random well-formed packets
		for i := 0; i < 300; i++ {
			g := randPacket(rng)
			if g.Len() <= 200 {
				buf := make([]byte, g.Len())
				if _, err := g.Encode(buf); err == nil {
					valid = append(valid, buf)
				}
			}
		}
		for vi, v := range valid {
			input(v)
			if vi%3 != int(*seed)%3 && len(v) > 40 {
				continue // rotate the larger vectors across seeds
			}
			// truncation at every offset, extension
			for cut := 0; cut < len(v) && cut < 64; cut++ {
				input(v[:cut])
			}
			input(append(append([]byte{}, v...), 0x00))
			// every byte: +1, -1, 0, FF, bit flip (first 48 bytes)
			for i := 0; i < len(v) && i < 48; i++ {
				for _, nv := range []byte{v[i] + 1, v[i] - 1, 0, 0xFF, v[i] ^ 0x80, v[i] ^ 0x01, v[i] + 2} {
					if nv == v[i] {
						continue
					}
					m := append([]byte{}, v...)
					m[i] = nv
					input(m)
				}
			}
			// remaining length edits with and without adjusting the body
			if len(v) >= 2 && v[1] < 0x7D {
				for _, d := range []int{-2, -1, 1, 2} {
					rl := int(v[1]) + d
					if rl < 0 {
						continue
					}
					m := append([]byte{}, v...)
					m[1] = byte(rl)
					input(m)
					if d > 0 {
						input(append(m, make([]byte, d)...))
					}
				}
			}
			// splicing of two packets
			o := valid[rng.Intn(len(valid))]
			if len(o) < 200 {
				input(append(append([]byte{}, v...), o...))
				if len(v) > 3 && len(o) > 3 {
					input(append(append([]byte{}, v[:len(v)/2]...), o[len(o)/2:]...))
				}
			}
			for k := 0; k < *nmut; k++ {
				m := append([]byte{}, v...)
				for j := 0; j < 1+rng.Intn(3); j++ {
					m[rng.Intn(len(m))] = byte(rng.Intn(256))
				}
				input(m)
			}
		}
	}
	// (c) random bytes, biased to plausible first bytes
	curCat = "random"
	for i := 0; i < *nrand; i++ {
		b := randBytes(rng, 2+rng.Intn(24))
		if rng.Intn(2) == 0 {
			b[0] = byte((1+rng.Intn(14))<<4) | []byte{0, 2, 0, 0, byte(rng.Intn(16))}[rng.Intn(5)]
			b[1] = byte(len(b) - 2)
			if rng.Intn(4) == 0 {
				b[1] = byte(rng.Intn(len(b)))
			}
		}
		input(b)
	}
	// (e) large valid encodings (up to the 4-byte remaining-length boundary) in run form, whole and cut short by one byte
	curCat = "large"
	if *vectors != "" {
		nbig := 0
		util.ReadLines(*vectors, func(line []byte) error {
			var v vector
			if json.Unmarshal(line, &v) != nil || v.Len <= 300 {
				return nil
			}
			if v.Len > 100000 {
				nbig++
				if !*full && (nbig+int(*seed))%9 != 0 {
					return nil
				}
			}
			b := expandRuns(v.Wire)
			for _, cut := range []int{0, 1} {
				src := b[:len(b)-cut]
				wire := append([]run{}, v.Wire...)
				if cut == 1 {
					last := wire[len(wire)-1]
					if last.N > 1 {
						wire[len(wire)-1] = run{last.N - 1, last.B}
					} else {
						wire = wire[:len(wire)-1]
					}
				}
				rec := decRec{I: count, Kind: "raw", BR: wire}
				count++
				rep.Case()
				cat[curCat]++
				func() {
					defer func() {
						if r := recover(); r != nil {
							rep.Mismatch("panic while decoding a %d byte input: %v", len(src), r)
						}
					}()
					_, dt := packet.DetectPacket(src)
					g, err := dt.New()
					if err != nil {
						return
					}
					n, err := g.Decode(src)
					if err != nil {
						return
					}
					rec.OK, rec.N = true, n
					if pb, ok := g.(*packet.Publish); ok {
						rec.PLen = len(pb.Message.Payload)
						pay := pb.Message.Payload
						// the payload itself is compared here (it is too large for the JSON record)
						if !bytes.Equal(pay, src[len(src)-len(pay):]) {
							rep.Mismatch("payload of a %d byte PUBLISH differs from the source bytes", len(src))
						}
						pb.Message.Payload = nil
						rec.P = explicit(g)
						pb.Message.Payload = pay
					} else {
						rec.P = explicit(g)
					}
				}()
				if rec.OK {
					accepted++
				}
				w.Encode(rec)
			}
			return nil
		})
	}
	// (d) extra corpus (coverage-guided fuzzing output)
	if *corpus != "" {
		ents, _ := os.ReadDir(*corpus)
		for _, e := range ents {
			if b, err := os.ReadFile(*corpus + "/" + e.Name()); err == nil {
				input(b)
			}
		}
	}
	rep.Set("categories", cat)
	rep.Set("records", count)
	rep.Set("accepted", accepted)
	rep.Print()
	return 0
}
