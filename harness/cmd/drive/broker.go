package main

// Broker conformance driver: runs scenario scripts against the real broker
// (broker.Engine + MemoryBackend behind the tracing wrapper) with scripted
// MQTT peers over harness-owned links, and writes one trace per scenario.

import (
	"bufio"
	"encoding/json"
	"flag"
	"fmt"
	"os"
	"runtime"
	"strings"
	"sync"
	"time"

	"github.com/256dpi/gomqtt/broker"
	"github.com/256dpi/gomqtt/packet"

	"verif/harness/link"
	"verif/harness/trace"
	"verif/harness/util"
	"verif/harness/wrap"
)

func init() { register("broker", brokerDrive) }

type bConfig struct {
	Window    int               `json:"window"`
	Queue     int               `json:"queue"`
	PubPar    int               `json:"pubpar"`
	SubPar    int               `json:"subpar"`
	AckMode   string            `json:"ackmode"`
	AckDelay  int               `json:"ackdelay_ms"`
	TokenMS   int               `json:"token_ms"`
	KillMS    int               `json:"kill_ms"`
	MaxKA     int               `json:"maxka_ms"`
	ConnectMS int               `json:"connect_ms"`
	HoldTerm  int               `json:"holdterm_ms"`
	HoldPub   int               `json:"holdpub_ms"`
	Creds     map[string]string `json:"creds"`
	Fail      map[string]int    `json:"fail"`
}

type bStep struct {
	Do     string          `json:"do"`
	P      string          `json:"p"`
	CID    string          `json:"cid"`
	Clean  bool            `json:"clean"`
	KA     int             `json:"ka"`
	User   string          `json:"user"`
	Pass   string          `json:"pass"`
	Will   *bMsg           `json:"will"`
	Fault  *link.Fault     `json:"fault"`
	Subs   [][]interface{} `json:"subs"`
	Topics []string        `json:"topics"`
	Msg    *bMsg           `json:"msg"`
	Dup    bool            `json:"dup"`
	ID     int             `json:"id"`
	N      int             `json:"n"`
	Mode   string          `json:"mode"`
	MS     int             `json:"ms"`
	Pkt    json.RawMessage `json:"pkt"`
	NoWait bool            `json:"nowait"`
	Resend bool            `json:"resend"`
}

type bMsg struct {
	Topic string `json:"topic"`
	Q     int    `json:"q"`
	Ret   bool   `json:"ret"`
	M     string `json:"m"`
	Size  int    `json:"size"`
	Empty bool   `json:"empty"`
}

func (m *bMsg) message() packet.Message {
	msg := packet.Message{Topic: m.Topic, QOS: packet.QOS(m.Q), Retain: m.Ret}
	if !m.Empty {
		p := m.M
		if m.Size > len(p)+1 {
			p += "|" + strings.Repeat("x", m.Size-len(p)-1)
		}
		msg.Payload = []byte(p)
	}
	return msg
}

type bScript struct {
	ID     int     `json:"id"`
	Family string  `json:"family"`
	Mode   string  `json:"mode"` // step | concurrent
	Config bConfig `json:"config"`
	Steps  []bStep `json:"steps"`
	IdleMS int     `json:"idle_ms"`
}

// peer is a scripted MQTT client with just enough state to follow the protocol.
type peer struct {
	name   string
	sc     *scenario
	mu     sync.Mutex
	l      *link.Link
	nextID int
	auto   bool
	// outgoing QoS>0 publishes not yet completed (for retransmission after resume)
	outq []*outPub
	// inbound responses owed in manual mode
	owed    []packet.Generic
	connack chan *packet.Connack
	done    chan struct{}
	cid     string
	clean   bool
}

type outPub struct {
	id    int
	pub   *packet.Publish
	state string // "sent" (awaiting PUBACK/PUBREC) | "rel" (PUBREL sent, awaiting PUBCOMP)
}

type scenario struct {
	log     *trace.Log
	be      *wrap.Backend
	eng     *broker.Engine
	peers   map[string]*peer
	nlinks  int
	mu      sync.Mutex
	idle    time.Duration
	readers sync.WaitGroup
}

func (sc *scenario) peer(name string) *peer {
	sc.mu.Lock()
	defer sc.mu.Unlock()
	p := sc.peers[name]
	if p == nil {
		p = &peer{name: name, sc: sc, nextID: 1, auto: true}
		sc.peers[name] = p
	}
	return p
}

func (p *peer) send(pkt packet.Generic) bool {
	p.mu.Lock()
	l := p.l
	p.mu.Unlock()
	if l == nil {
		return false
	}
	return l.PSend(pkt)
}

// reader moves packets from the link to the peer's protocol state (one reader per link).
func (p *peer) reader(l *link.Link, connack chan *packet.Connack, done chan struct{}) {
	defer p.sc.readers.Done()
	defer close(done)
	for {
		pkt := l.PRecv()
		if pkt == nil {
			return
		}
		switch t := pkt.(type) {
		case *packet.Connack:
			select {
			case connack <- t:
			default:
			}
		case *packet.Publish:
			if t.Message.QOS == 1 {
				a := packet.NewPuback()
				a.ID = t.ID
				p.respond(l, a)
			} else if t.Message.QOS == 2 {
				a := packet.NewPubrec()
				a.ID = t.ID
				p.respond(l, a)
			}
		case *packet.Pubrel:
			a := packet.NewPubcomp()
			a.ID = t.ID
			p.respond(l, a)
		case *packet.Puback:
			p.completed(int(t.ID))
		case *packet.Pubcomp:
			p.completed(int(t.ID))
		case *packet.Pubrec:
			p.mu.Lock()
			for _, o := range p.outq {
				if o.id == int(t.ID) {
					o.state = "rel"
				}
			}
			p.mu.Unlock()
			r := packet.NewPubrel()
			r.ID = t.ID
			l.PSend(r)
		}
	}
}

func (p *peer) respond(l *link.Link, pkt packet.Generic) {
	p.mu.Lock()
	auto := p.auto
	if !auto {
		p.owed = append(p.owed, pkt)
	}
	p.mu.Unlock()
	if auto {
		l.PSend(pkt)
	}
}

func (p *peer) completed(id int) {
	p.mu.Lock()
	defer p.mu.Unlock()
	for i, o := range p.outq {
		if o.id == id {
			p.outq = append(p.outq[:i], p.outq[i+1:]...)
			return
		}
	}
}

func (sc *scenario) quiesce() {
	sc.log.WaitIdle(sc.idle, 100*sc.idle+2*time.Second)
}

func (sc *scenario) step(st bStep, wait bool) {
	p := sc.peer(st.P)
	switch st.Do {
	case "open":
		sc.mu.Lock()
		sc.nlinks++
		name := fmt.Sprintf("k%d", sc.nlinks)
		sc.mu.Unlock()
		l := link.New(sc.log, name, "b")
		l.Fault = st.Fault
		p.mu.Lock()
		old := p.l
		p.l = l
		p.cid, p.clean = st.CID, st.Clean
		p.owed = nil
		connack := make(chan *packet.Connack, 1)
		done := make(chan struct{})
		p.connack, p.done = connack, done
		if st.Clean {
			p.outq = nil
		}
		p.mu.Unlock()
		_ = old
		sc.log.Add("popen", "c", name, "p", st.P)
		sc.readers.Add(1)
		go p.reader(l, connack, done)
		if !sc.eng.Handle(link.Conn{L: l}) {
			sc.log.Add("pnote", "c", name, "note", "engine refused connection")
			return
		}
		if st.Mode == "noconnect" {
			return
		}
		c := packet.NewConnect()
		c.ClientID = st.CID
		c.CleanSession = st.Clean
		c.KeepAlive = uint16(st.KA)
		c.Username, c.Password = st.User, st.Pass
		if st.Will != nil {
			m := st.Will.message()
			c.Will = &m
		}
		l.PSend(c)
		if st.NoWait {
			return
		}
		select {
		case ca := <-connack:
			if ca.ReturnCode == 0 && !st.Clean && st.Resend {
				// a conformant client retransmits what it still holds, in the original order
				p.mu.Lock()
				var again []packet.Generic
				for _, o := range p.outq {
					if o.state == "rel" {
						r := packet.NewPubrel()
						r.ID = packet.ID(o.id)
						again = append(again, r)
					} else {
						d := *o.pub
						d.Dup = true
						again = append(again, &d)
					}
				}
				p.mu.Unlock()
				for _, g := range again {
					l.PSend(g)
				}
			}
		case <-done:
		case <-time.After(3 * time.Second):
			sc.log.Add("pnote", "c", name, "note", "no CONNACK within 3s")
		}
	case "sub":
		s := packet.NewSubscribe()
		s.ID = p.id()
		for _, x := range st.Subs {
			s.Subscriptions = append(s.Subscriptions, packet.Subscription{Topic: x[0].(string), QOS: packet.QOS(int(x[1].(float64)))})
		}
		p.send(s)
	case "unsub":
		u := packet.NewUnsubscribe()
		u.ID = p.id()
		u.Topics = st.Topics
		p.send(u)
	case "pub":
		pb := packet.NewPublish()
		pb.Message = st.Msg.message()
		pb.Dup = st.Dup
		if st.Msg.Q > 0 {
			if st.ID > 0 {
				pb.ID = packet.ID(st.ID)
			} else {
				pb.ID = p.id()
			}
			cp := *pb
			p.mu.Lock()
			p.outq = append(p.outq, &outPub{id: int(pb.ID), pub: &cp, state: "sent"})
			p.mu.Unlock()
		}
		p.send(pb)
	case "pubrel":
		r := packet.NewPubrel()
		r.ID = packet.ID(st.ID)
		p.send(r)
	case "ackmode":
		p.mu.Lock()
		p.auto = st.Mode != "manual"
		p.mu.Unlock()
	case "ack":
		for i := 0; i < st.N || st.N == 0; i++ {
			p.mu.Lock()
			if len(p.owed) == 0 {
				p.mu.Unlock()
				break
			}
			var pkt packet.Generic
			if st.Mode == "last" {
				pkt = p.owed[len(p.owed)-1]
				p.owed = p.owed[:len(p.owed)-1]
			} else {
				pkt = p.owed[0]
				p.owed = p.owed[1:]
			}
			p.mu.Unlock()
			p.send(pkt)
			if wait {
				sc.quiesce()
			}
		}
	case "ping":
		p.send(packet.NewPingreq())
	case "disconnect":
		p.send(packet.NewDisconnect())
	case "close":
		p.mu.Lock()
		l := p.l
		p.mu.Unlock()
		if l != nil {
			l.PClose()
		}
	case "cut":
		p.mu.Lock()
		l := p.l
		p.mu.Unlock()
		if l != nil {
			l.Cut("script")
		}
	case "raw":
		if g := rawPacket(st.Pkt); g != nil {
			p.send(g)
		}
	case "wait":
		time.Sleep(time.Duration(st.MS) * time.Millisecond)
	case "backendclose":
		sc.log.Add("bclose.call")
		ok := sc.be.Inner.Close(2 * time.Second)
		sc.log.Add("bclose.ret", "ok", ok)
	}
	if wait && st.Do != "wait" && st.Do != "ackmode" {
		sc.quiesce()
	}
}

func (p *peer) id() packet.ID {
	p.mu.Lock()
	defer p.mu.Unlock()
	id := p.nextID
	p.nextID++
	if p.nextID > 65535 {
		p.nextID = 1
	}
	return packet.ID(id)
}

// rawPacket builds an arbitrary packet from a JSON description {"t":"PUBACK","id":5,...}.
func rawPacket(raw json.RawMessage) packet.Generic {
	var d struct {
		T      string          `json:"t"`
		ID     int             `json:"id"`
		Msg    *bMsg           `json:"msg"`
		Dup    bool            `json:"dup"`
		Subs   [][]interface{} `json:"subs"`
		Topics []string        `json:"topics"`
		Codes  []int           `json:"codes"`
		CID    string          `json:"cid"`
		Clean  bool            `json:"clean"`
		SP     bool            `json:"sp"`
		RC     int             `json:"rc"`
	}
	if json.Unmarshal(raw, &d) != nil {
		return nil
	}
	switch d.T {
	case "CONNECT":
		c := packet.NewConnect()
		c.ClientID, c.CleanSession = d.CID, d.Clean
		return c
	case "CONNACK":
		c := packet.NewConnack()
		c.SessionPresent, c.ReturnCode = d.SP, packet.ConnackCode(d.RC)
		return c
	case "PUBLISH":
		p := packet.NewPublish()
		p.Message = d.Msg.message()
		p.ID, p.Dup = packet.ID(d.ID), d.Dup
		return p
	case "PUBACK":
		return &packet.Puback{ID: packet.ID(d.ID)}
	case "PUBREC":
		return &packet.Pubrec{ID: packet.ID(d.ID)}
	case "PUBREL":
		return &packet.Pubrel{ID: packet.ID(d.ID)}
	case "PUBCOMP":
		return &packet.Pubcomp{ID: packet.ID(d.ID)}
	case "SUBSCRIBE":
		s := packet.NewSubscribe()
		s.ID = packet.ID(d.ID)
		for _, x := range d.Subs {
			s.Subscriptions = append(s.Subscriptions, packet.Subscription{Topic: x[0].(string), QOS: packet.QOS(int(x[1].(float64)))})
		}
		return s
	case "SUBACK":
		s := packet.NewSuback()
		s.ID = packet.ID(d.ID)
		for _, c := range d.Codes {
			s.ReturnCodes = append(s.ReturnCodes, packet.QOS(c))
		}
		return s
	case "UNSUBSCRIBE":
		u := packet.NewUnsubscribe()
		u.ID, u.Topics = packet.ID(d.ID), d.Topics
		return u
	case "UNSUBACK":
		return &packet.Unsuback{ID: packet.ID(d.ID)}
	case "PINGREQ":
		return packet.NewPingreq()
	case "PINGRESP":
		return packet.NewPingresp()
	case "DISCONNECT":
		return packet.NewDisconnect()
	}
	return nil
}

func ms(n, def int) time.Duration {
	if n == 0 {
		n = def
	}
	return time.Duration(n) * time.Millisecond
}

// runScenario executes one script and returns its event log.
func runScenario(s *bScript, tr int, slow int) *trace.Log {
	log := trace.New(tr)
	inner := broker.NewMemoryBackend()
	inner.SessionQueueSize = s.Config.Queue
	if inner.SessionQueueSize == 0 {
		inner.SessionQueueSize = 100
	}
	inner.ClientInflightMessages = s.Config.Window
	inner.ClientParallelPublishes = s.Config.PubPar
	inner.ClientParallelSubscribes = s.Config.SubPar
	inner.ClientTokenTimeout = ms(s.Config.TokenMS, 9000) // (longer than the kill timeout, as the library's defaults 30 s and 5 s are)
	inner.KillTimeout = ms(s.Config.KillMS, 3000)
	inner.ClientMaximumKeepAlive = ms(s.Config.MaxKA, 0)
	if s.Config.MaxKA == 0 {
		inner.ClientMaximumKeepAlive = 0
	}
	if s.Config.Creds != nil {
		inner.Credentials = s.Config.Creds
	}
	be := wrap.NewBackend(inner, log)
	be.AckMode = s.Config.AckMode
	be.AckDelay = ms(s.Config.AckDelay, 0) * time.Duration(slow)
	be.Fail = s.Config.Fail
	be.HoldTerm = ms(s.Config.HoldTerm, 0) * time.Duration(slow)
	if s.Config.HoldTerm == 0 {
		be.HoldTerm = 0
	}
	be.HoldPub = ms(s.Config.HoldPub, 0)
	if s.Config.HoldPub == 0 {
		be.HoldPub = 0
	}
	eng := broker.NewEngine(be)
	eng.ConnectTimeout = ms(s.Config.ConnectMS, 2000)
	idle := s.IdleMS
	if idle == 0 {
		idle = 4
	}
	sc := &scenario{log: log, be: be, eng: eng, peers: map[string]*peer{}, idle: time.Duration(idle*slow) * time.Millisecond}
	base := runtime.NumGoroutine()
	cfg, _ := json.Marshal(s.Config)
	var cfgm map[string]interface{}
	json.Unmarshal(cfg, &cfgm)
	window, pubpar, subpar := s.Config.Window, s.Config.PubPar, s.Config.SubPar
	if window <= 0 {
		window = 10
	}
	if pubpar <= 0 {
		pubpar = 10
	}
	if subpar <= 0 {
		subpar = 10
	}
	log.Add("config", "script", s.ID, "family", s.Family, "token_ms", int(inner.ClientTokenTimeout/time.Millisecond), "window", window, "queue", inner.SessionQueueSize, "pubpar", pubpar, "subpar", subpar,
		"ackmode", s.Config.AckMode, "auth", s.Config.Creds != nil)

	if s.Mode == "concurrent" {
		// steps of different peers run concurrently; each peer's own steps stay in order
		byPeer := map[string][]bStep{}
		var order []string
		for _, st := range s.Steps {
			if _, ok := byPeer[st.P]; !ok {
				order = append(order, st.P)
			}
			byPeer[st.P] = append(byPeer[st.P], st)
		}
		var wg sync.WaitGroup
		for _, name := range order {
			wg.Add(1)
			go func(steps []bStep) {
				defer wg.Done()
				for _, st := range steps {
					sc.step(st, false)
				}
			}(byPeer[name])
		}
		wg.Wait()
	} else {
		for _, st := range s.Steps {
			sc.step(st, true)
		}
	}
	// settle with the connections still up
	log.WaitIdle(time.Duration(40*slow)*time.Millisecond, 8*time.Second)
	be.Wait()
	log.WaitIdle(time.Duration(40*slow)*time.Millisecond, 8*time.Second)
	log.Add("settle")
	// end: close everything and let the broker clean up
	for _, p := range sc.peers {
		p.mu.Lock()
		l := p.l
		p.mu.Unlock()
		if l != nil {
			l.PClose()
		}
	}
	log.WaitIdle(time.Duration(15*slow)*time.Millisecond, 5*time.Second)
	sc.readers.Wait()
	inner.Close(2 * time.Second)
	// (Engine.Close is not called: without Accept its tomb never ran a goroutine and Wait would block)
	// goroutines must return to the baseline
	leaked := 0
	for i := 0; i < 200; i++ {
		leaked = runtime.NumGoroutine() - base
		if leaked <= 0 {
			break
		}
		time.Sleep(5 * time.Millisecond)
	}
	if leaked < 0 {
		leaked = 0
	}
	log.Add("end", "leaked", leaked)
	return log
}

func brokerDrive(args []string) int {
	fs := flag.NewFlagSet("broker", flag.ExitOnError)
	in := fs.String("scripts", "", "ndjson scripts")
	out := fs.String("out", "", "ndjson traces")
	slow := fs.Int("slow", 1, "timing multiplier (re-drive of rejected scenarios)")
	shard := fs.Int("shard", 0, "run scripts with index % shards == shard")
	shards := fs.Int("shards", 1, "number of shards")
	fs.Parse(args)
	f, err := os.Create(*out)
	if err != nil {
		fmt.Fprintln(os.Stderr, err)
		return 2
	}
	defer f.Close()
	w := bufio.NewWriterSize(f, 1<<20)
	defer w.Flush()
	rep := &util.Report{}
	idx := 0
	err = util.ReadLines(*in, func(line []byte) error {
		idx++
		if (idx-1)%*shards != *shard {
			return nil
		}
		var s bScript
		if err := json.Unmarshal(line, &s); err != nil {
			return fmt.Errorf("bad script: %v", err)
		}
		var log *trace.Log
		fmt.Fprintf(os.Stderr, "RUNNING script %d\n", s.ID)
		func() {
			defer func() {
				if r := recover(); r != nil {
					// a panic in a driver goroutine we own; panics inside gomqtt goroutines kill the process (observed by the orchestrator)
					fmt.Fprintf(os.Stderr, "driver panic in script %d: %v\n", s.ID, r)
				}
			}()
			log = runScenario(&s, s.ID, *slow)
		}()
		if log != nil {
			log.Write(w)
			w.Flush()
			rep.Case()
			rep.Set("events", func() int {
				n, _ := rep.Extra["events"].(int)
				return n + log.Len()
			}())
		}
		return nil
	})
	if err != nil {
		fmt.Fprintln(os.Stderr, err)
		return 2
	}
	rep.Print()
	return 0
}
