package main

// C18: replay of every transition of Session.tla on the real session objects,
// long allocation windows, and concurrent histories for TLC to linearise.

import (
	"encoding/json"
	"flag"
	"fmt"
	"math/rand"
	"os"
	"sort"
	"sync"

	"github.com/256dpi/gomqtt/packet"
	"github.com/256dpi/gomqtt/session"

	"verif/harness/util"
)

func init() {
	register("session-replay", sessionReplay)
	register("session-window", sessionWindow)
	register("session-conc", sessionConc)
}

type slot struct {
	D  string `json:"d"`
	ID int    `json:"id"`
	K  string `json:"k"`
}

type sessOp struct {
	Op  string          `json:"op"`
	D   string          `json:"d"`
	K   string          `json:"k"`
	ID  int             `json:"id"`
	Res json.RawMessage `json:"res"`
}

type sessEdge struct {
	Fn int    `json:"fn"`
	Fs []slot `json:"fs"`
	Op sessOp `json:"op"`
	Tn int    `json:"tn"`
	Ts []slot `json:"ts"`
}

func dirOf(d string) session.Direction {
	if d == "in" {
		return session.Incoming
	}
	return session.Outgoing
}

func mkPkt(k string, id int) packet.Generic {
	switch k {
	case "pub0":
		p := packet.NewPublish()
		p.ID = packet.ID(id)
		p.Message.Topic = "t"
		if id > 0 {
			p.Message.QOS = 1
		}
		return p
	case "pub1":
		p := packet.NewPublish()
		p.ID = packet.ID(id)
		p.Message.Topic = "t"
		p.Dup = true
		if id > 0 {
			p.Message.QOS = 1
		}
		return p
	case "pubrel":
		p := packet.NewPubrel()
		p.ID = packet.ID(id)
		return p
	}
	panic("kind " + k)
}

func kindOf(p packet.Generic) string {
	switch t := p.(type) {
	case nil:
		return "none"
	case *packet.Publish:
		if t.Dup {
			return "pub1"
		}
		return "pub0"
	case *packet.Pubrel:
		return "pubrel"
	}
	return "other:" + p.String()
}

func idOfNext(n int) int {
	if n == 0 {
		return 1
	}
	return n
}

// observe projects the real session onto the abstract state (without the counter).
func observeSession(s *session.MemorySession, ids []int) (string, string) {
	var viaLookup, viaAll []string
	for _, d := range []string{"in", "out"} {
		for _, id := range ids {
			p, err := s.LookupPacket(dirOf(d), packet.ID(id))
			if err != nil {
				viaLookup = append(viaLookup, "err")
			}
			if p != nil {
				gid, _ := packet.GetID(p)
				viaLookup = append(viaLookup, fmt.Sprintf("%s/%d/%s/%d", d, id, kindOf(p), gid))
			}
		}
		all, _ := s.AllPackets(dirOf(d))
		for _, p := range all {
			gid, _ := packet.GetID(p)
			viaAll = append(viaAll, fmt.Sprintf("%s/%d/%s/%d", d, gid, kindOf(p), gid))
		}
	}
	sort.Strings(viaLookup)
	sort.Strings(viaAll)
	return fmt.Sprint(viaLookup), fmt.Sprint(viaAll)
}

func expectSlots(sl []slot) string {
	var x []string
	for _, s := range sl {
		x = append(x, fmt.Sprintf("%s/%d/%s/%d", s.D, s.ID, s.K, s.ID))
	}
	sort.Strings(x)
	return fmt.Sprint(x)
}

func sessionReplay(args []string) int {
	fs := flag.NewFlagSet("session-replay", flag.ExitOnError)
	in := fs.String("edges", "", "ndjson edges dumped by TLC")
	idsFlag := fs.String("ids", "[0,1]", "id universe (JSON array)")
	fs.Parse(args)
	var ids []int
	json.Unmarshal([]byte(*idsFlag), &ids)
	rep := &util.Report{}
	ops := map[string]int{}
	err := util.ReadLines(*in, func(line []byte) error {
		var e sessEdge
		if err := json.Unmarshal(line, &e); err != nil {
			return fmt.Errorf("bad edge %s: %v", line, err)
		}
		rep.Case()
		ops[e.Op.Op]++
		rep.Sample(json.RawMessage(append([]byte{}, line...)), 3)
		// rebuild the source state on real objects
		s := session.NewMemorySession()
		s.Counter = session.NewIDCounterWithNext(packet.ID(e.Fn))
		for _, sl := range e.Fs {
			s.SavePacket(dirOf(sl.D), mkPkt(sl.K, sl.ID))
		}
		var bare *session.IDCounter
		// apply the operation
		switch e.Op.Op {
		case "nextid":
			got := int(s.NextID())
			if got != e.Op.ID {
				rep.Mismatch("NextID from next=%d: got %d, spec %d", e.Fn, got, e.Op.ID)
			}
		case "creset":
			bare = session.NewIDCounterWithNext(packet.ID(e.Fn))
			bare.Reset()
			s.Counter.Reset()
		case "reset":
			if err := s.Reset(); err != nil {
				rep.Mismatch("Reset error %v", err)
			}
		case "save":
			if err := s.SavePacket(dirOf(e.Op.D), mkPkt(e.Op.K, e.Op.ID)); err != nil {
				rep.Mismatch("SavePacket error %v", err)
			}
		case "savenoid":
			s.SavePacket(dirOf(e.Op.D), packet.NewConnect())
			s.SavePacket(dirOf(e.Op.D), packet.NewPingreq())
		case "lookup":
			p, err := s.LookupPacket(dirOf(e.Op.D), packet.ID(e.Op.ID))
			var want string
			json.Unmarshal(e.Op.Res, &want)
			if err != nil || kindOf(p) != want {
				rep.Mismatch("Lookup(%s,%d) in %v: got %s, spec %s", e.Op.D, e.Op.ID, e.Fs, kindOf(p), want)
			}
		case "delete":
			if err := s.DeletePacket(dirOf(e.Op.D), packet.ID(e.Op.ID)); err != nil {
				rep.Mismatch("DeletePacket error %v", err)
			}
		case "all":
			var want []struct {
				ID int    `json:"id"`
				K  string `json:"k"`
			}
			json.Unmarshal(e.Op.Res, &want)
			var w, g []string
			for _, x := range want {
				w = append(w, fmt.Sprintf("%d/%s", x.ID, x.K))
			}
			all, err := s.AllPackets(dirOf(e.Op.D))
			for _, p := range all {
				gid, _ := packet.GetID(p)
				g = append(g, fmt.Sprintf("%d/%s", gid, kindOf(p)))
			}
			sort.Strings(w)
			sort.Strings(g)
			if err != nil || fmt.Sprint(w) != fmt.Sprint(g) {
				rep.Mismatch("All(%s) in %v: got %v, spec %v", e.Op.D, e.Fs, g, w)
			}
		default:
			return fmt.Errorf("unknown op %s", e.Op.Op)
		}
		// compare the complete abstract state
		want := expectSlots(e.Ts)
		l, a := observeSession(s, ids)
		if l != want || a != want {
			rep.Mismatch("after %s(%s,%s,%d) from %v: lookups %s, all %s, spec %s", e.Op.Op, e.Op.D, e.Op.K, e.Op.ID, e.Fs, l, a, want)
		}
		if got := int(s.NextID()); got != idOfNext(e.Tn) {
			rep.Mismatch("counter after %s from next=%d: next allocation %d, spec %d", e.Op.Op, e.Fn, got, idOfNext(e.Tn))
		}
		if bare != nil {
			if got := int(bare.NextID()); got != 1 {
				rep.Mismatch("IDCounter.Reset from %d: next allocation %d, spec 1", e.Fn, got)
			}
		}
		return nil
	})
	if err != nil {
		fmt.Fprintln(os.Stderr, err)
		return 2
	}
	rep.Set("ops", ops)
	rep.Print()
	return 0
}

// sessionWindow: on the real counter, 65535 consecutive allocations from many starting
// values are pairwise distinct and non-zero; allocation 65536 repeats the first.
func sessionWindow(args []string) int {
	fs := flag.NewFlagSet("session-window", flag.ExitOnError)
	starts := fs.Int("starts", 16, "number of starting values")
	seed := fs.Int64("seed", 1, "seed")
	fs.Parse(args)
	rng := rand.New(rand.NewSource(*seed))
	rep := &util.Report{}
	list := []int{0, 1, 2, 65534, 65535, 32768}
	for len(list) < *starts {
		list = append(list, rng.Intn(65536))
	}
	for _, st := range list {
		rep.Case()
		c := session.NewIDCounterWithNext(packet.ID(st))
		seen := make([]bool, 65536)
		first := 0
		for i := 0; i < 65535; i++ {
			id := int(c.NextID())
			if i == 0 {
				first = id
			}
			if id == 0 {
				rep.Mismatch("start %d: allocation %d returned 0", st, i)
			}
			if seen[id] {
				rep.Mismatch("start %d: id %d repeated at allocation %d (< 65535)", st, id, i)
				break
			}
			seen[id] = true
		}
		if id := int(c.NextID()); id != first {
			rep.Mismatch("start %d: allocation 65536 is %d, spec %d (cycle of 65535)", st, id, first)
		}
	}
	rep.Sample(list, 1)
	rep.Print()
	return 0
}

// sessionConc records concurrent histories on one MemorySession: each goroutine logs
// inv/ret events with a global sequence number taken under one mutex; TLC (SessionLin.tla)
// decides linearisability. NextID calls additionally must be pairwise distinct.
func sessionConc(args []string) int {
	fs := flag.NewFlagSet("session-conc", flag.ExitOnError)
	out := fs.String("out", "", "ndjson history file")
	hist := fs.Int("histories", 20, "number of histories")
	seed := fs.Int64("seed", 1, "seed")
	maxThreads := fs.Int("threads", 4, "max goroutines")
	opsPer := fs.Int("ops", 6, "ops per goroutine")
	idsFlag := fs.String("ids", "[0,1]", "id universe")
	fs.Parse(args)
	var ids []int
	json.Unmarshal([]byte(*idsFlag), &ids)
	f, err := os.Create(*out)
	if err != nil {
		fmt.Fprintln(os.Stderr, err)
		return 2
	}
	defer f.Close()
	enc := json.NewEncoder(f)
	rep := &util.Report{}
	kinds := []string{"pub0", "pub1", "pubrel"}
	for h := 1; h <= *hist; h++ {
		rng := rand.New(rand.NewSource(*seed*100003 + int64(h)))
		nthreads := 2 + rng.Intn(*maxThreads-1)
		s := session.NewMemorySession()
		start := []int{1, 65533, 65535, 0}[rng.Intn(4)]
		s.Counter = session.NewIDCounterWithNext(packet.ID(start))
		var mu sync.Mutex
		var events []map[string]interface{}
		logev := func(e map[string]interface{}) {
			mu.Lock()
			e["h"] = h
			events = append(events, e)
			mu.Unlock()
		}
		logev(map[string]interface{}{"ev": "begin", "next": start, "t": 0, "op": "", "d": "", "k": "", "id": 0, "res": "", "resn": 0, "resl": []interface{}{}})
		var wg sync.WaitGroup
		startGate := make(chan struct{})
		type plan struct {
			op, d, k string
			id       int
		}
		for t := 1; t <= nthreads; t++ {
			var pl []plan
			for i := 0; i < *opsPer; i++ {
				p := plan{d: []string{"in", "out"}[rng.Intn(2)], k: kinds[rng.Intn(3)], id: ids[rng.Intn(len(ids))]}
				p.op = []string{"save", "lookup", "delete", "nextid", "save", "lookup", "all"}[rng.Intn(7)]
				pl = append(pl, p)
			}
			wg.Add(1)
			go func(t int, pl []plan) {
				defer wg.Done()
				<-startGate
				for _, p := range pl {
					logev(map[string]interface{}{"ev": "inv", "t": t, "op": p.op, "d": p.d, "k": p.k, "id": p.id, "res": "", "resn": 0, "resl": []interface{}{}})
					res := ""
					resn := 0
					resl := []interface{}{}
					switch p.op {
					case "save":
						s.SavePacket(dirOf(p.d), mkPkt(p.k, p.id))
					case "lookup":
						pk, _ := s.LookupPacket(dirOf(p.d), packet.ID(p.id))
						res = kindOf(pk)
					case "delete":
						s.DeletePacket(dirOf(p.d), packet.ID(p.id))
					case "nextid":
						resn = int(s.NextID())
					case "all":
						all, _ := s.AllPackets(dirOf(p.d))
						for _, pk := range all {
							gid, _ := packet.GetID(pk)
							resl = append(resl, map[string]interface{}{"id": int(gid), "k": kindOf(pk)})
						}
					}
					logev(map[string]interface{}{"ev": "ret", "t": t, "op": p.op, "d": p.d, "k": p.k, "id": p.id, "res": res, "resn": resn, "resl": resl})
				}
			}(t, pl)
		}
		close(startGate)
		wg.Wait()
		logev(map[string]interface{}{"ev": "end", "t": 0, "op": "", "d": "", "k": "", "id": 0, "res": "", "next": 0, "resn": 0, "resl": []interface{}{}})
		for _, e := range events {
			if _, ok := e["next"]; !ok {
				e["next"] = 0
			}
			enc.Encode(e)
		}
		rep.Case()
		if h <= 1 && len(events) > 8 {
			rep.Sample(events[:8], 1)
		}
	}
	rep.Print()
	return 0
}
