--------------------------- MODULE TopicMatchTable ---------------------------
(* C04, spec -> code: TLC evaluates the reference matcher on the complete bounded
   universe (levels Lits + {+, #}, depth <= Depth) and writes, per valid filter,
   the list of valid names it matches.  The Go replayer checks the real topic.Tree in
   both directions (Add filter / Match name; Add name / Search filter) against it. *)
EXTENDS TopicMatch, Json, SequencesExt

Depth == @@DEPTH@@
Lits  == @@LITS@@

Names   == {n \in SeqsUpTo(Lits, Depth) : ValidName(n)}
Filters == {f \in SeqsUpTo(Lits \cup {"+", "#"}, Depth) : ValidFilter(f)}

Row(f) == [f |-> f, ms |-> SetToSeq({n \in Names : Matches(f, n)})]

ASSUME RefSanity(Filters, Names)
ASSUME ndJsonSerialize("@@OUT@@/names.ndjson", SetToSeq({[n |-> n] : n \in Names}))
ASSUME ndJsonSerialize("@@OUT@@/table.ndjson", SetToSeq({Row(f) : f \in Filters}))
ASSUME PrintT(<<"COUNTS", Cardinality(Filters), Cardinality(Names)>>)
=============================================================================
