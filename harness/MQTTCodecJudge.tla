--------------------------- MODULE MQTTCodecJudge ---------------------------
(* C01 code -> spec: packets encoded by the library, judged against the reference encoder;
   plus the reference codec's own round-trip theorem on the small vectors.
   Record: [i, p |-> explicit packet record, bytes |-> <<...>>, len |-> Len() reported by the library] *)
EXTENDS MQTTCodec, Json

Recs == ndJsonDeserialize("@@TRACE@@")

Judge(r) ==
  LET want == Enc(r.p) IN
  IF want = r.bytes /\ r.len = Len(want) /\ WellFormedR(PRuns(r.p))
     /\ Dec(want) = [ok |-> TRUE, n |-> Len(want), ext |-> Len(want), p |-> r.p]     \* reference round trip
  THEN TRUE
  ELSE PrintT(<<"DISAGREE", ToJson([i |-> r.i, wellformed |-> WellFormedR(PRuns(r.p)), want |-> want, got |-> r.bytes, len |-> r.len,
                                    refroundtrip |-> (Dec(want).ok /\ Dec(want).p = r.p)])>>)

ASSUME \A i \in 1..Len(Recs) : Judge(Recs[i])
ASSUME PrintT(<<"JUDGED", Len(Recs)>>)
=============================================================================
