SPECIFICATION TSpec
CONSTANTS
  Conns <- TraceConns
  SKeys <- TraceSKeys
  Report = TRUE
CONSTRAINT HW
POSTCONDITION PostReport
CHECK_DEADLOCK FALSE
