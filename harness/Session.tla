------------------------------ MODULE Session ------------------------------
(***************************************************************************)
(* Reference model of package session (C18): the packet id counter and the *)
(* per-direction packet store of a MemorySession.                          *)
(*                                                                         *)
(*  - IDCounter: `next' ranges over all 65536 values of a uint16.  NextID  *)
(*    skips 0, returns next, increments with wrap-around.  Reset -> 1.      *)
(*  - PacketStore: per direction a map id -> last packet saved under that  *)
(*    id.  Packets of a type without an id (CONNECT ...) are ignored.       *)
(*                                                                         *)
(* Modes (constant Mode):                                                  *)
(*   "counter": every one of the 65536 counter states is an initial state; *)
(*              TLC generates every NextID / Reset transition.              *)
(*   "orbit"  : one behaviour of 65536 allocations from next = 1; checks   *)
(*              that the id sequence first returns to 1 after exactly      *)
(*              65535 steps (so the successor map is one 65535-cycle).      *)
(*   "store"  : all histories of Save/Lookup/Delete/All/Reset/NextID over  *)
(*              the id universe Ids in both directions.                     *)
(* The transition relation is dumped edge by edge (EmitEdge, used as       *)
(* ACTION_CONSTRAINT) and every edge is replayed on the real objects.       *)
(***************************************************************************)
EXTENDS Naturals, Sequences, FiniteSets, TLC, Json

CONSTANTS Ids,       \* packet ids used by store operations (0 allowed: a QoS 0 PUBLISH has id 0)
          Mode,      \* "counter" | "orbit" | "store"
          MaxNext    \* store mode: bound on the counter so the graph stays finite

None   == [k |-> "none", id |-> 0]
Dirs   == {"in", "out"}
Kinds  == {"pub0", "pub1", "pubrel"}   \* PUBLISH dup=0, PUBLISH dup=1 (distinguishable packets under one id), PUBREL
Pkt(k, i) == [k |-> k, id |-> i]

VARIABLES next,    \* IDCounter.next
          store,   \* [Dirs -> [Ids -> packets \cup {None}]]
          steps,   \* orbit mode: allocations made so far
          lastop   \* last operation with its result (history variable, hidden by VIEW)

vars == <<next, store, steps, lastop>>
view == <<next, store, steps>>

IdOf(n)   == IF n = 0 THEN 1 ELSE n
Succ(n)   == (IdOf(n) + 1) % 65536
Empty     == [d \in Dirs |-> [i \in Ids |-> None]]
\* pure operators (shared with SessionLin.tla)
SaveF(st, d, k, i)  == [st EXCEPT ![d][i] = Pkt(k, i)]
DeleteF(st, d, i)   == [st EXCEPT ![d][i] = None]
LookupF(st, d, i)   == st[d][i].k
AllF(st, d)         == {[id |-> i, k |-> st[d][i].k] : i \in {j \in Ids : st[d][j] # None}}
Contents(st) == {[d |-> x[1], id |-> x[2], k |-> st[x[1]][x[2]].k] : x \in {y \in Dirs \X Ids : st[y[1]][y[2]] # None}}

Init ==
  /\ store = Empty
  /\ steps = 0
  /\ lastop = [op |-> "init"]
  /\ next \in (IF Mode = "counter" THEN 0..65535 ELSE {1})

NextID ==
  /\ Mode = "store" => next < MaxNext
  /\ Mode = "orbit" => steps < 65536
  /\ next' = Succ(next)
  /\ steps' = IF Mode = "orbit" THEN steps + 1 ELSE steps
  /\ lastop' = [op |-> "nextid", id |-> IdOf(next)]
  /\ UNCHANGED store

CounterReset ==
  /\ Mode = "counter"
  /\ next' = 1
  /\ lastop' = [op |-> "creset"]
  /\ UNCHANGED <<store, steps>>

Save(d, k, i) ==
  /\ store' = SaveF(store, d, k, i)
  /\ lastop' = [op |-> "save", d |-> d, k |-> k, id |-> i]
  /\ UNCHANGED <<next, steps>>

SaveNoId(d) ==           \* a packet type without id: ignored
  /\ lastop' = [op |-> "savenoid", d |-> d]
  /\ UNCHANGED <<next, store, steps>>

Lookup(d, i) ==
  /\ lastop' = [op |-> "lookup", d |-> d, id |-> i, res |-> LookupF(store, d, i)]
  /\ UNCHANGED <<next, store, steps>>

Delete(d, i) ==
  /\ store' = DeleteF(store, d, i)
  /\ lastop' = [op |-> "delete", d |-> d, id |-> i]
  /\ UNCHANGED <<next, steps>>

All(d) ==
  /\ lastop' = [op |-> "all", d |-> d, res |-> AllF(store, d)]
  /\ UNCHANGED <<next, store, steps>>

SessReset ==             \* MemorySession.Reset: counter and both stores
  /\ store' = Empty
  /\ next' = 1
  /\ lastop' = [op |-> "reset"]
  /\ UNCHANGED steps

StoreNext ==
  \/ NextID
  \/ SessReset
  \/ \E d \in Dirs : SaveNoId(d) \/ All(d) \/ \E i \in Ids : Lookup(d, i) \/ Delete(d, i) \/ \E k \in Kinds : Save(d, k, i)

Next ==
  \/ Mode = "counter" /\ (NextID \/ CounterReset)
  \/ Mode = "orbit" /\ NextID
  \/ Mode = "store" /\ StoreNext

Spec == Init /\ [][Next]_vars

----------------------------------------------------------------------------
(* Properties *)

TypeOK == next \in 0..65535

\* Ids handed out are never zero and follow the cyclic successor on 1..65535.  Written over
\* (next, lastop', next') so that TLC evaluates them on every generated transition even though the
\* history variable lastop is hidden by the VIEW; IdOf(next') is the id the following allocation returns.
IdNonZero   == [][lastop'.op = "nextid" => lastop'.id \in 1..65535]_vars
IdSuccessor == [][lastop'.op = "nextid" => IdOf(next') = (lastop'.id % 65535) + 1]_vars
ResetRestartsAtOne == [][lastop'.op \in {"creset", "reset"} => IdOf(next') = 1]_vars
\* the same two facts as constant-level statements over all 65536 counter states
ASSUME \A n \in 0..65535 : IdOf(n) \in 1..65535 /\ IdOf(Succ(n)) = (IdOf(n) % 65535) + 1

\* orbit mode: allocation number k (1-based) returns id 1 only for k = 1 and k = 65536
OrbitClosesAt65535 ==
  (Mode = "orbit" /\ lastop.op = "nextid") => ((lastop.id = 1) <=> (steps \in {1, 65536}))

\* the two directions never influence each other; lookups see the last save
DirectionsIndependent ==
  [][\A d \in Dirs : (lastop'.op \in {"save", "delete", "savenoid", "lookup", "all"} /\ lastop'.d # d) => store'[d] = store[d]]_vars
StoreIsMap ==
  [][ /\ (lastop'.op = "save") => (store'[lastop'.d][lastop'.id] = Pkt(lastop'.k, lastop'.id) /\ \A i \in Ids \ {lastop'.id} : store'[lastop'.d][i] = store[lastop'.d][i])
      /\ (lastop'.op = "delete") => (store'[lastop'.d][lastop'.id] = None /\ \A i \in Ids \ {lastop'.id} : store'[lastop'.d][i] = store[lastop'.d][i])
      /\ (lastop'.op \in {"lookup", "all", "savenoid", "nextid"}) => store' = store ]_vars

----------------------------------------------------------------------------
(* Edge dump: ACTION_CONSTRAINT, -workers 1, VIEW view *)
EmitEdge ==
  PrintT(<<"EDGE", ToJson([fn |-> next, fs |-> Contents(store), op |-> lastop', tn |-> next', ts |-> Contents(store')])>>)

=============================================================================
