#!/opt/veriftools/pyvenv/bin/python
"""validate MANIFEST.json and evidence/*.json against the schemas (development helper)"""
import json, sys, glob, jsonschema
ok = True
m = json.load(open('/verif/MANIFEST.json'))
jsonschema.validate(m, json.load(open('/root/.vp/MANIFEST.schema.json')))
es = json.load(open('/root/.vp/EVIDENCE.schema.json'))
for f in sorted(glob.glob('/verif/evidence/*.json')):
    try:
        jsonschema.validate(json.load(open(f)), es)
        print("ok", f)
    except Exception as e:
        ok = False
        print("INVALID", f, str(e)[:300])
ids = {c['property_id'] for c in m['checks']} | {c['property_id'] for c in m.get('not_applicable', [])}
print("manifest ok; covered ids:", len(ids))
sys.exit(0 if ok else 1)
