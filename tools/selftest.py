#!/usr/bin/env python3
"""Binding self-test (a dropped `fut.done` is not a corruption: it is an observation that only adds information; what is
corrupted instead is its content): traces recorded from the real code are corrupted (one event dropped, one field changed,
two ordered events swapped) and must then be REJECTED by the trace specifications; the uncorrupted traces must
be accepted.  Shows that the specifications are bound to the observations and not only to trace length.

usage: tools/selftest.py [broker client service conn]      exit 0 = every corruption rejected"""
import copy, json, os, sys
sys.path.insert(0, os.path.dirname(os.path.abspath(__file__)))
import lib, brokerlib as B


def families(kind):
    if kind == "broker":
        import brokerfam
        from props import c06
        return c06.scenarios(1, "quick")[:6] + brokerfam.resume(1, "quick")[:6] + brokerfam.inbound(1, "quick")[:6]
    if kind == "client":
        import clientfam
        return clientfam.outgoing(1, "quick")[:8] + clientfam.incoming(1, "quick")[:8]
    if kind == "service":
        import clientfam
        return clientfam.service(1, "quick")[:12]
    import connfam
    return [s for s in connfam.conn(1, "quick") if s["family"] in ("plain", "close", "closeflush")][:12]


# kind -> list of (name, selector of the event to corrupt, mutation)
def pick(evs, pred, nth=0):
    idx = [i for i, e in enumerate(evs) if pred(e)]
    return idx[min(nth, len(idx) - 1)] if idx else None


def bump_id(e):
    e = copy.deepcopy(e)
    e["pkt"]["id"] = (e["pkt"].get("id", 0) + 7) % 65535 + 1
    return e


CORRUPTIONS = {
    "broker": [
        ("drop a broker send", lambda e: e["ev"] == "bsend" and e["pkt"]["t"] in ("PUBLISH", "SUBACK", "PUBACK", "CONNACK"), "drop"),
        ("change the id of a sent packet", lambda e: e["ev"] == "bsend" and e["pkt"].get("id", 0) > 0, bump_id),
        ("drop a session save", lambda e: e["ev"] == "sess.save", "drop"),
        ("drop a Backend return", lambda e: e["ev"] in ("pub.ret", "sub.ret", "setup.ret"), "drop"),
        ("swap a send with the event before it", lambda e: e["ev"] == "bsend" and e["pkt"]["t"] in ("PUBLISH", "PUBACK", "PUBREC", "PUBCOMP"), "swap"),
    ],
    "client": [
        ("drop a client send", lambda e: e["ev"] == "csend" and e["pkt"]["t"] in ("PUBLISH", "SUBSCRIBE", "PUBACK", "PUBREL", "PUBCOMP"), "drop"),
        ("change the id of a sent packet", lambda e: e["ev"] == "csend" and e["pkt"].get("id", 0) > 0, bump_id),
        ("turn a completed future into a cancelled one", lambda e: e["ev"] == "fut.done" and e["st"] == "completed" and e["kind"] != "connect", lambda e: dict(e, st="cancelled")),
        ("drop a session save", lambda e: e["ev"] == "sess.save", "drop"),
    ],
    "service": [
        ("drop the send of a command", lambda e: e["ev"] == "csend" and e["pkt"]["t"] == "PUBLISH" and not e["pkt"].get("dup"), "drop"),
        ("turn a completed future into a cancelled one", lambda e: e["ev"] == "fut.done" and e["st"] == "completed", lambda e: dict(e, st="cancelled")),
        ("drop the online callback", lambda e: e["ev"] == "svc.online", "drop"),
    ],
    "conn": [
        ("drop a carrier write", lambda e: e["ev"] == "cwrite" and e["err"] == "", "drop"),
        ("change a written byte", lambda e: e["ev"] == "cwrite" and len(e["att"]) > 4,
         lambda e: dict(e, att=e["att"][:3] + [(e["att"][3] + 1) % 256] + e["att"][4:], b=(e["b"][:3] + [(e["b"][3] + 1) % 256] + e["b"][4:]) if len(e["b"]) > 4 else e["b"])),
        ("drop the carrier close", lambda e: e["ev"] == "cclose" and e.get("first"), "drop"),
        ("turn a failed send into a success", lambda e: e["ev"] == "api.ret" and e.get("op") == "send" and e["err"] != "", lambda e: dict(e, err="")),
        ("report a hung call", lambda e: e["ev"] == "settle", lambda e: dict(e, stuck=["send1.1"])),
    ],
}


def main(kinds):
    bad = 0
    for kind in kinds:
        run = lib.Run("SELFTEST", "quick", 1, "model_checking")
        run.wd = lib.workdir("SELFTEST")
        scripts = families(kind)
        tfile, crashes = B.run_scripts(run, scripts, "st", kind=kind)
        res, events, r = B.validate(run, tfile, "st", kind=kind)
        good = [tr for tr, x in res.items() if x["ok"]]
        if len(good) < len(res):
            print("SELFTEST %s: %d of %d uncorrupted traces are not accepted - run the property checks first" % (kind, len(res) - len(good), len(res)))
            bad += 1
        out = []
        expect = {}
        nid = 50000
        for name, pred, mut in CORRUPTIONS[kind]:
            used = 0
            for tr in good:
                evs = B.trace_of(events, tr)
                i = pick(evs, pred, nth=used % 2)
                if i is None:
                    continue
                evs = copy.deepcopy(evs)
                if mut == "drop":
                    del evs[i]
                elif mut == "swap":
                    if i == 0 or evs[i - 1]["ev"] in ("config",):
                        continue
                    evs[i - 1], evs[i] = evs[i], evs[i - 1]
                else:
                    evs[i] = mut(evs[i])
                nid += 1
                for k, e in enumerate(evs, 1):
                    e["tr"] = nid
                    e["seq"] = k
                out += evs
                expect[nid] = (name, tr)
                used += 1
                if used >= 3:
                    break
        cfile = os.path.join(run.wd, "corrupt.ndjson")
        with open(cfile, "w") as f:
            for e in out:
                f.write(json.dumps(e) + "\n")
        res2, _, _ = B.validate(run, cfile, "st.c", kind=kind)
        by = {}
        for nidx, (name, tr) in expect.items():
            ok = res2[nidx]["ok"]
            by.setdefault(name, [0, 0])
            by[name][0 if not ok else 1] += 1
        for name, (rej, acc) in by.items():
            status = "rejected" if acc == 0 else "ACCEPTED %d of %d" % (acc, rej + acc)
            if (name.startswith("swap") or name.startswith("drop the online")) and acc and rej:
                status = "rejected %d of %d (two independent events swapped / nothing sent after the callback: legitimately accepted)" % (rej, rej + acc)
            elif acc:
                bad += 1
            print("SELFTEST %s: %-40s %s (%d corrupted traces)" % (kind, name, status, rej + acc))
        print("SELFTEST %s: %d uncorrupted traces accepted" % (kind, len(good)))
        lib.cleanup(run.wd)
    return 1 if bad else 0


if __name__ == "__main__":
    sys.exit(main(sys.argv[1:] or ["broker", "client", "service", "conn"]))
