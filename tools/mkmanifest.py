#!/usr/bin/env python3
"""Regenerates /verif/MANIFEST.json from the table below (one source of truth for what is claimed)."""
import json, os, subprocess

VERIF = os.path.dirname(os.path.dirname(os.path.abspath(__file__)))

# id -> (level, technique, text, note, design_ref)   -- only properties whose check exists in tools/props
CLAIMED = {
 "C18": ("model_checking",
         "TLA+ reference model (Session.tla) explored exhaustively by TLC; every transition replayed on the real objects; concurrent histories linearised by TLC (SessionLin.tla)",
         "TLC generates the complete transition graph of the id counter (all 65536 states) and of the packet store over a small id universe; "
         "each transition is replayed on session.IDCounter / MemorySession and all observations compared; the 65535-cycle is proved in the model "
         "(orbit run + successor property) and measured on the real counter; concurrent histories recorded under the race detector are checked for linearisability by TLC.",
         "Trusted: TLC, the ndjson edge dump, the replayer's projection of the real session through its public API, the Go race detector. Store universe bounded (ids {0,1} quick, {0,1,2} thorough).",
         "DESIGN.md section 5 C18"),
}

CLAIMED["C04"] = ("exploration",
    "TLA+ reference matcher (TopicMatch.tla, from MQTT 3.1.1 4.7) evaluated by TLC: complete (filter,name) table replayed on topic.Tree in both directions; recorded random answers judged by TLC over raw bytes",
    "Bounded-exhaustive: TLC evaluates the reference matcher on every valid filter x valid name over levels {a,b,empty,+,#} up to depth 4 (5 in thorough) and the real tree is "
    "checked pair by pair in both directions (Add filter/Match name, Add name/Search filter, first-variants), on all small subsets and random larger sets; "
    "random long multi-byte topics are recorded from the real tree and judged by TLC (level splitting decided by the specification).",
    "Trusted: TopicMatch.tla as the oracle, TLC's evaluation, composition of set answers by union. '$'-topics are outside the stated universe.",
    "DESIGN.md section 5 C04")
CLAIMED["C05"] = ("model_checking",
    "TLA+ map model (TopicTree.tla): TLC generates the complete reachable graph; every transition replayed on the real tree with every query compared; concurrent histories linearised by TLC (TopicTreeLin.tla)",
    "TLC explores all states of the map model over a small topic x value universe and dumps every transition and the model's answer to every query; each transition is replayed on a "
    "real topic.Tree (source state rebuilt along its BFS path) and Get/Match/Search/first-variants/All/Count/String() compared, earlier results re-compared after later operations "
    "(snapshot clause); long random histories walk the same graph; concurrent histories (mixed, and long writer-vs-spinning-reader ones) recorded from the real tree are checked for "
    "linearisability by TLC; the race detector observes the data-race clause.",
    "Trusted: TLC, the edge/state dump, the replayer's projection, the Go race detector, inv/ret ordering under one mutex. Universe: 4 topics x 2 values quick, 7 x 2 thorough.",
    "DESIGN.md section 5 C05")

CLAIMED["C01"] = ("exploration",
    "TLA+ reference codec (MQTTCodec.tla, from the MQTT 3.1.1 text) evaluated by TLC: grid of packets with mandated wire images replayed on the library (Len/Encode/Decode/stream encoder); library encodings of random packets judged by TLC",
    "Bounded-exhaustive over the stated grid: TLC enumerates every type, flag combination, boundary ids and sizes solved in TLA+ so that the remaining length crosses every "
    "variable-length-integer boundary a type can reach (field lengths 0/1/65534/65535), and writes the wire image the standard mandates; the replayer checks Len(), Encode into exact "
    "and larger dirty buffers, Decode, DetectPacket and the pooled stream encoder against it. Random well-formed packets encoded by the library are judged by TLC (Enc(p)=bytes, reference round trip).",
    "Trusted: MQTTCodec.tla as the oracle (self-checked: Dec(Enc(p)) = p on every judged packet), TLC's evaluation, run-length expansion in the harness. The 268435455-byte vector only in thorough.",
    "DESIGN.md section 5 C01")
CLAIMED["C02"] = ("exploration",
    "TLA+ reference decoder (MQTTCodec.tla Dec, extent-local by construction) evaluated by TLC as judge of decode results recorded from the library for enumerated headers, structure-aware mutations, random and fuzzed bytes",
    "Every input (enumerated header space, mutations of every valid reference encoding, random bytes, large encodings at the 4-byte length boundary; fuzzing corpus in thorough) is presented raw, "
    "embedded before two tails and through packet.Decoder; each presentation is judged by TLC against the reference decoder: verdict, every field, consumed count. Panics, consumed>supplied, "
    "aliasing of the input buffer and re-encodability are observed around each decode. One known finding (CONNECT over-read, unrepairable without editing a test) is modelled as a named deviation.",
    "Trusted: MQTTCodec.tla Dec with the documented leniencies L1-L5; TLC; the recorder. Not exhaustive over all byte strings (generated + enumerated header space).",
    "DESIGN.md section 5 C02")

CLAIMED["C03"] = ("model_checking",
    "TLA+ model of the incremental decoder (Stream.tla) checked exhaustively by TLC over every delivery schedule, cut and read limit of bounded packet sequences, and bound to the code by replay: TLC generates "
    "reference byte streams with the required packets/ending (StreamCases.tla over MQTTCodec.tla) that are fed in every fragmentation through packet.Decoder, BaseConn, TCP and WebSocket",
    "Design: SameAsReference (result independent of fragmentation), NoPacketFromPartial, LimitBeforeBuffer, DecoderTerminates on all schedules; deviations LimitAfterRead/EofHidesPartial must violate them. "
    "Code: every composition of all streams up to 13 bytes, seeded random chunkings of longer ones (sizes around 127/128, 4096, 16383/16384 and the read limit), a rotating sample through real TCP and WebSocket "
    "loopback (one message per chunk, several packets per message), and whole-packet streams sent through BaseConn in async/sync mixes - also while the connection "
    "receives and the carrier writes slowly - with the wire compared to the reference bytes.",
    "Trusted: MQTTCodec.tla as reference for packets and endings; TLC. Loopback TCP segmentation is best effort. Long streams are sampled, not enumerated.",
    "DESIGN.md section 5 C03")

CLAIMED["C19"] = ("model_checking",
    "TLA+ specification Conn.tla of BaseConn + packet.Encoder + mercury.Writer (send mutex, writer mutex, one-shot and sticky write errors, flush timer incl. missed Stop, closer, receiver, failing carrier) "
    "checked exhaustively by TLC (safety + liveness under fairness, deviations for non-vacuity) and bound to the code by trace validation of the real BaseConn over a scripted carrier (ConnTrace.tla)",
    "Design: WireWhole, SenderOrder, NoDuplicates, CloseFlushesAccepted, FlushedIsOnWire, FlushedSendFailsAfterClose, BufferedSendFailsAfterFailedFlush, ErrorClosesCarrier, TimerCoversBuffer, "
    "EveryCallReturns, EventuallyFlushed, ReceiveUnblocked on all interleavings of the bounded configurations; 4 deviations must violate them; the relaxed model without sendMutex is shown to keep "
    "every property. Code: 1-16 sender goroutines, closer and receiver goroutines, flush delays 0-200 ms, carrier failures at the k-th write/read/close/deadline call, timeouts, EOF, blocked writes; "
    "every carrier write must be the next bytes of the model's stream, every send result the model's, the carrier closed on every error path, every call returned. "
    "Further families: duplex (slow large writes while the connection receives), the same scenarios over real TCP on loopback (logged net.Conn under NetConn), "
    "and a pass with the Go race detector compiled in.",
    "Trusted: TLC; the model of mercury v0.2.0/bufio read from their source; the scripted carrier (TCP-like close semantics). TCP and WebSocket carriers are covered for framing by C03's replay, "
    "for concurrency only through BaseConn which they embed. Traces rejected only by the strict mutex discipline but accepted by the property-preserving relaxed model are not reported.",
    "DESIGN.md section 5 C19")

BROKER_TECH = ("TLA+ specification Broker.tla (event-granular, one action per critical section of broker/client.go and MemoryBackend) bound to the real broker by trace "
               "validation: scripted MQTT peers over harness-owned links, Backend wrapper, session-store hooks; every recorded trace checked by TLC (BrokerTrace.tla) incl. settlement; "
               "the same actions closed with conformant scripted peers, link cuts and reconnects (BrokerMC.tla) are model-checked exhaustively for the end-to-end invariants "
               "(Q2Once, NoLoss, NoDuplicateDelivery, OrderKept, InflightLeWindow, WillOnce, OneHolder, liveness Delivery) with reachability witnesses and a deviation")
BROKER_NOTE = ("Trusted: TLC; the ordering argument of the harness (sends logged before, receives after, link queue + log entry atomic; store hooks under the store's lock); "
               "scripted peers; rejected scenarios are re-driven slowly before being reported; attribution by tagged guards at the high-water mark. Bounded scenario families, not all histories.")
BROKER_TEXT = {
 "C06": "Every trace of the delivery family (subscribe/unsubscribe/publish histories, overlapping wildcard filters, all QoS pairs, step-wise and concurrent) must be a behaviour of Broker.tla: a message is queued for a session only if one of its filters matches at fan-out, once per session, forwarded intact with the QoS capped by a grant of a matching subscription; at settlement everything queued has been delivered.",
 "C07": "Publisher handshakes with the connection cut before/after every single broker-side operation, late/never-acknowledging and failing backends: PUBACK/PUBCOMP only after the backend's ack was invoked, PUBREC only after the session recorded the message, a stored QoS 2 message handed on once (again only while in doubt), every PUBREL answered.",
 "C08": "Persistent subscriber with cuts at every operation (also during resend): save before send, kept until acknowledged, PUBREC replaces by PUBREL, everything stored is resent after resume with DUP, session-present iff resumed, clean connect discards, offline queueing up to capacity; nothing queued with room is lost (settlement).",
 "C11": "Retained set is a state variable of Broker.tla; every trace of retained/empty/non-retained publish histories with subscriptions over the bounded filter set must replay exactly the matching retained messages (flagged, QoS-capped) and clear the flag on live copies.",
 "C12": "Termination cause x protocol state x will QoS/retain: the will is published exactly once, intact, iff Setup succeeded and no DISCONNECT was processed, and before Terminate.",
 "C13": "Sequential and concurrent CONNECTs with one client id: Setup returns for the newcomer only after the previous holder entered Terminate (will published); session state (subscriptions, queues, stores) is the same model variable across the hand-over, so loss or duplication shows up in later deliveries.",
 "C14": "Hostile packet sequences, token exhaustion, 64 KiB topics, backend failures at every call site and shutdown races: only a connection with a cause is closed, Terminate exactly once per successful Setup, closed signal for every ended connection, no goroutine left, witnesses keep receiving (settlement); a panic or hang of the driver process is a violation.",
 "C15": "Per-session FIFO queues and the insertion-ordered outgoing store are model state: deliveries must come from the head of a queue, resend lists must be in original transmission order per kind.",
 "C16": "Dequeue needs a token, at most `window` stored unacknowledged messages, tokens conserved; at settlement queues are drained unless the peer itself withholds acknowledgements for a full window.",
 "C20": "Every non-CONNECT first packet, rejected authentication, all short packet sequences after CONNECT, pipelined requests: no backend call before an accepted CONNECT, CONNACK 5 and nothing more after failed authentication, offenders closed without reply, SUBACK/UNSUBACK/PINGRESP match their requests in order, at most one CONNACK.",
}
for _p, _t in BROKER_TEXT.items():
    CLAIMED[_p] = ("model_checking", BROKER_TECH, _t, BROKER_NOTE, "DESIGN.md section 5 " + _p)

CLIENT_TECH = ("TLA+ specification Client.tla (event-granular: API threads, processor goroutine, die/cleanup without the API mutex, session, future store) bound to the real "
               "client.Client by trace validation: scripted broker over a harness-owned link, wrapped session, a waiter per future; every trace checked by TLC (ClientTrace.tla); "
               "the same actions closed with an application script, a conformant scripted broker, cuts and a resuming client object (ClientMC.tla) are model-checked exhaustively "
               "(FutureTruth, KeepUntilAck, CallbackOnce, AckOnlyIfAccepted, NoPendingAfterEnd, liveness Returns; witnesses; the known finding reproduced at design level)")
CLIENT_NOTE = ("Trusted: TLC; the harness ordering argument (link + log atomic, session wrapper makes operation + log entry one step); scripted broker; rejected scenarios are re-driven "
               "slowly; one known finding (die() vs API race) is accepted only under its named deviation. Bounded scenario families.")
CLAIMED["C09"] = ("model_checking", CLIENT_TECH,
    "API sequences against a scripted broker with drops before/after every client-side operation, session-operation failures, CONNACK variants and a gated die-vs-publish race: "
    "QoS>=1 publishes are recorded before the first byte, kept until PUBACK/PUBCOMP, everything recorded is resent (dup) after resume, a future completes only after its acknowledgement was "
    "processed and is cancelled when the client ends, Close/Disconnect return with every future resolved, accessors never panic.", CLIENT_NOTE, "DESIGN.md section 5 C09")
CLAIMED["C10"] = ("model_checking", CLIENT_TECH,
    "Broker scripts over PUBLISH(id,qos,dup)/PUBREL(known, unknown, repeated)/drop+resume with callback errors, both callback modes and failures at every acknowledgement: "
    "one callback per QoS 2 handshake, PUBREC for every QoS 2 PUBLISH, PUBCOMP for every PUBREL (message released before it is written), PUBACK only after an accepting callback, "
    "no acknowledgement and a closed connection after a refusing callback.", CLIENT_NOTE, "DESIGN.md section 5 C10")

CLAIMED["C17"] = ("model_checking",
    "TLA+ specification Service.tla (command queue, subscription table, supervisor phases, futures; the client abstracted to its packets) bound to the real client.Service by trace "
    "validation: Dialer into a scripted broker that fails on command, wrapped session, callbacks and a waiter per future; every trace checked by TLC (ServiceTrace.tla)",
    "Failure schedules x API sequences x Start/Stop from several goroutines: commands are carried out first-in first-out, after every reconnect the resubscription is exactly the "
    "current subscription set, futures resolve truthfully (completed only after the acknowledgement, cancelled when a command cannot be handed on or is displaced), survive reconnects, "
    "Stop returns, cancels everything pending when asked to, and the service can be restarted.",
    "Trusted: TLC; harness ordering; scripted broker; the silent enqueue step between an API call and its return; rejected scenarios are re-driven slowly. Bounded scenario family.",
    "DESIGN.md section 5 C17")

PENDING_REASON = "check not built yet in this round (planned, see DESIGN.md section 5)"


def main():
    hooks = []
    hf = os.path.join(VERIF, "HOOK_COMMITS.txt")
    if os.path.exists(hf):
        hooks = [l.split()[0] for l in open(hf) if l.strip() and not l.startswith("#")]
    m = {
        "version": 1,
        "setup_cmd": "./setup.sh",
        "hooks": {
            "guard": "verif",
            "enable": "go build -tags verif (harness module /verif/harness with `replace github.com/256dpi/gomqtt => /repo`)",
            "baseline_off_cmd": "cd /repo && GOFLAGS=-mod=mod go test -vet=off -count=1 -timeout 25m ./...",
            "source_commits": hooks,
            "add_only": True,
        },
        "engines": [
            {"name": "tlc", "path": "/opt/veriftools/tla/tla2tools.jar", "serves_properties": sorted(CLAIMED),
             "kind_free_text": "TLA+ specifications in /verif/spec checked by TLC: exhaustive exploration, simulation (scenario generation), "
                               "constant evaluation (reference codec / matcher), trace validation of recorded real-code executions"},
            {"name": "drive", "path": "/verif/harness", "serves_properties": sorted(CLAIMED),
             "kind_free_text": "Go conformance harness built against /repo with -tags verif: replays TLC-generated transitions/vectors/scenarios on the real code and records traces"},
        ],
        "checks": [],
        "notes": "All properties are decided with explicit TLA+ specifications under /verif/spec and TLC, bound to the code by replay (spec -> code) "
                 "and trace validation (code -> spec). See DESIGN.md. Known findings: KNOWN_FINDINGS.txt.",
        "not_applicable": [],
    }
    for i in range(1, 21):
        pid = "C%02d" % i
        if pid in CLAIMED:
            level, tech, text, note, ref = CLAIMED[pid]
            m["checks"].append({
                "property_id": pid,
                "quick_cmd": "./check %s --tier quick" % pid,
                "thorough_cmd": "./check %s --tier thorough" % pid,
                "evidence_file": "/verif/evidence/%s.json" % pid,
                "replay_cmd_template": "./check %s --replay {path}" % pid,
                "engine": "tlc",
                "level_claimed": {"category": level, "text": text, "design_ref": ref},
                "level_note": note,
                "technique": tech,
            })
        else:
            m["not_applicable"].append({"property_id": pid, "reason": PENDING_REASON})
    json.dump(m, open(os.path.join(VERIF, "MANIFEST.json"), "w"), indent=1)
    print("claimed:", sorted(CLAIMED))


if __name__ == "__main__":
    main()
