"""C04 - topic matching in both directions (TopicMatch.tla as reference, evaluated by TLC)."""
import json, os
import lib
from props.c18 import parse_report

LEVEL = "exploration"


def check(run):
    tier, seed, wd = run.tier, run.seed, run.wd
    drive = lib.build_harness()
    # spec -> code: the complete table over the bounded universe, computed by TLC
    depth, lits = (5, '{"a", "b", ""}') if tier == "thorough" else (4, '{"a", "b", ""}')
    r = lib.tlc(wd, "TopicMatchTable", "", timeout=3000, defs={"DEPTH": depth, "LITS": lits, "OUT": wd})
    if not r.ok() or r.assume_failed or not r.lines("COUNTS"):
        raise lib.Infra("TopicMatchTable failed:\n" + r.out[-2000:])
    nf, nn = [int(x) for x in r.lines("COUNTS")[0].split(",")]
    rc, out, err = lib.run_drive(drive, ["topic-table", "-dir", wd, "-seed", str(seed),
                                         "-sets", "20000" if tier == "thorough" else "3000"], timeout=3000)
    rep = parse_report(out, rc, err)
    run.add(evaluations=rep["cases"], samples=rep.get("samples", []))
    if rep["mismatches"]:
        run.violation("topic.Tree disagrees with the MQTT 4.7 reference matcher on %d of %d checks; first: %s"
                      % (rep["mismatches"], rep["cases"], rep["first"][0]), files={"mismatches.json": rep})
    # code -> spec: random long topics (multi-byte levels, depth <= 12) judged over raw bytes
    nrec = 40000 if tier == "thorough" else 5000
    rec = os.path.join(wd, "rec.ndjson")
    rc, out, err = lib.run_drive(drive, ["topic-record", "-out", rec, "-n", str(nrec), "-seed", str(seed)])
    rep2 = parse_report(out, rc, err)
    if rep2["mismatches"]:
        run.violation("duplicate values in a query answer: " + rep2["first"][0], files={"mismatches.json": rep2})
    r = lib.tlc(wd, "TopicJudge", "", timeout=3000, defs={"TRACE": rec})
    if not r.ok() or not r.lines("JUDGED"):
        raise lib.Infra("TopicJudge failed:\n" + r.out[-2000:])
    dis = r.lines("DISAGREE")
    judged, nonempty = [int(x) for x in r.lines("JUDGED")[0].split(",")]
    run.add(evaluations=judged, samples=rep2.get("samples", []))
    if dis:
        recs = [json.loads(l) for l in open(rec)]
        first = json.loads(lib.tla_unquote(dis[0]))
        bad = recs[first["i"]]
        txt = "stored=%s query=%s got=%s reference=%s" % (
            [bytes(s).decode("utf8", "replace") for s in bad["stored"]], bytes(bad["q"]).decode("utf8", "replace"), first["got"], first["want"])
        run.violation("%d of %d recorded %s answers disagree with the reference matcher; first: %s" % (len(dis), judged, first["dir"], txt),
                      files={"disagreements.txt": "\n".join(dis[:200]), "first.json": bad})
    run.add(distinct_nontrivial=rep["extra"]["matching_pairs"] + nonempty,
            rule="spec->code: all %d valid filters x %d valid names over levels {a,b,empty,+,#} up to depth %d, each pair checked as "
                 "Add(filter)+Match(name)/MatchFirst and Add(name)+Search(filter)/SearchFirst, plus %d small/random sets; "
                 "code->spec: %d random stored sets (long alphabet, multi-byte UTF-8, depth<=12) judged by TLC over bytes. "
                 "Non-trivial = (filter,name) pairs that match + recorded queries with a non-empty reference answer"
                 % (nf, nn, depth, rep["extra"]["sets"], judged),
            exhaustive=True, filters=nf, names=nn, matching_pairs=rep["extra"]["matching_pairs"], sets=rep["extra"]["sets"])
    run.assumptions = ["the reference matcher TopicMatch.tla is the oracle (written from MQTT 3.1.1 section 4.7)",
                       "TLC evaluates it over the complete bounded universe; '$'-topics are outside the stated universe",
                       "set answers are composed from the pairwise table by union (the property's own definition)"]
