"""C19 - concurrent sends stay whole; close loses nothing; no hang after close or error (Conn.tla)."""
import brokerlib as B
import connfam as F
import lib
import mc

LEVEL = "model_checking"


def check(run):
    # design level: senders / timer / closer / receiver / failing carrier over all interleavings (bounded)
    mc.conn_mc(run)
    scripts = F.conn(run.seed, run.tier)
    known = {k["key"]: k["text"] for k in lib.known_findings("C19")}
    nacc, rejected, events, final = B.check_family(run, "C19", scripts, "c19", kind="conn", known=known, relaxed=mc.CONN_RELAXED)
    # the same kinds of scenario once more with the Go race detector compiled in (no trace validation: only its reports count)
    rs = [s for s in scripts if s["family"] in ("plain", "close", "duplex", "tcp", "eof")][:40 if run.tier == "quick" else 150]
    B.run_scripts(run, rs, "c19race", kind="conn", race=True)
    for rep in getattr(run, "race_reports", [])[:1]:
        run.violation("data race reported by the Go race detector while goroutines send, receive and close on one connection",
                      files={"race.txt": rep})
    run.add(race_detector_scenarios=len(rs))
    fams = sorted({s["family"] for s in scripts})
    run.add(distinct_nontrivial=len({lib.digest({k: v for k, v in s.items() if k != "id"}) for s in scripts}),
            samples=[{"script": scripts[0]}, {"trace_head": [{k: (v if k not in ("enc", "att", "b") else len(v)) for k, v in e.items()}
                                                             for e in B.sample_trace(events, scripts[0]["id"])]}],
            families=fams,
            rule="scenarios on the real BaseConn over the scripted carrier: 1-16 sender goroutines x 1-5 sends, flush delays 0-200 ms, flushed/buffered mixes, packet sizes "
                 "from 9 bytes to several bufio buffers, a closer goroutine at arbitrary moments, a receiver goroutine, carrier failures at the k-th write (with partial "
                 "acceptance), read, close and deadline call, read timeouts, peer end-of-stream, writes blocked by back pressure; then a flushed send, two buffered sends "
                 "(before/after the flush delay), a receive and a second close after the end; a family of the same scenarios runs over a real TCP connection on loopback (logged net.Conn under transport.NetConn). Every trace validated against Conn.tla: each carrier write must carry exactly "
                 "the bytes the model's bufio buffer holds (wholeness, order, nothing lost before Close closes), every result must be the model's, every call must return")
    run.assumptions = ["Conn.tla models mercury.Writer/bufio.Writer from their source (mercury v0.2.0, Go 1.26 bufio)", "the scripted carrier has TCP-like close semantics",
                       "the recorded wire is used as prophecy for the order in which senders entered the writer"]
