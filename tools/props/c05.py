"""C05 - topic tree equals a topic->value-set map (TopicTree.tla, TopicTreeLin.tla)."""
import json, os
import lib
from props.c18 import parse_report

LEVEL = "model_checking"

UNIVERSE = {
    "quick": dict(topics=[["a"], ["a", "b"], ["a", "+"], ["#"]],
                  names=[["a"], ["a", "b"], ["b"], ["a", "b", "c"], ["a", ""]],
                  filters=[["a"], ["a", "b"], ["a", "+"], ["a", "#"], ["+"], ["#"], ["+", "+"], ["a", "b", "#"]]),
    "thorough": dict(topics=[["a"], ["a", "b"], ["a", "+"], ["a", "#"], ["+"], ["#"], ["b"]],
                     names=[["a"], ["a", "b"], ["b"], ["a", "b", "c"], ["a", ""], ["c"]],
                     filters=[["a"], ["a", "b"], ["a", "+"], ["a", "#"], ["+"], ["#"], ["+", "+"], ["a", "b", "#"], ["b", "#"], ["+", "b"]]),
}


def tla_set(ll):
    return "{" + ", ".join("<<" + ", ".join('"%s"' % x for x in l) + ">>" for l in ll) + "}"


def check(run):
    tier, seed, wd = run.tier, run.seed, run.wd
    drive = lib.build_harness()
    drive_race = lib.build_harness(race=True)
    u = UNIVERSE[tier]
    mc = "---- MODULE TopicTreeMC ----\nEXTENDS TopicTree\nMCTopics == %s\nMCQNames == %s\nMCQFilters == %s\n====\n" % (
        tla_set(u["topics"]), tla_set(u["names"]), tla_set(u["filters"]))
    open(os.path.join(wd, "TopicTreeMC.tla"), "w").write(mc)
    cfg = """SPECIFICATION Spec
CONSTANTS
  Topics <- MCTopics
  Values = {1, 2}
  QNames <- MCQNames
  QFilters <- MCQFilters
VIEW view
INVARIANTS TypeOK CountVsAll EmitState
PROPERTIES Frame
ACTION_CONSTRAINT EmitEdge
CHECK_DEADLOCK FALSE
"""
    r = lib.tlc(wd, "TopicTreeMC", cfg, workers=1, timeout=3000)
    if r.invariant or not r.ok():
        raise lib.Infra("TopicTree.tla failed in TLC itself:\n" + r.out[-2000:])
    dump = os.path.join(wd, "tree.dump")
    ne = ns = 0
    with open(dump, "w") as f:
        for p in r.lines("STATE"):
            f.write("S" + lib.tla_unquote(p) + "\n"); ns += 1
        for p in r.lines("EDGE"):
            f.write("E" + lib.tla_unquote(p) + "\n"); ne += 1
    if ns != r.distinct or ne == 0:
        raise lib.Infra("dump incomplete: %d states (TLC %d), %d edges" % (ns, r.distinct, ne))
    states, trans = r.distinct, r.generated
    # every transition replayed on the real tree, every query compared
    rc, out, err = lib.run_drive(drive, ["tree-replay", "-dump", dump], timeout=3000)
    rep = parse_report(out, rc, err)
    run.add(evaluations=rep["cases"], samples=rep.get("samples", [])[:2])
    if rep["mismatches"]:
        run.violation("real topic.Tree disagrees with TopicTree.tla on %d checks over %d transitions; first: %s"
                      % (rep["mismatches"], rep["cases"], rep["first"][0]), files={"mismatches.json": rep})
    changing = rep["extra"]["state_changing_edges"]
    # long random histories through the same graph
    nh, ln = (300, 400) if tier == "thorough" else (40, 300)
    rc, out, err = lib.run_drive(drive, ["tree-random", "-dump", dump, "-histories", str(nh), "-len", str(ln), "-seed", str(seed)], timeout=3000)
    rep2 = parse_report(out, rc, err)
    run.add(evaluations=rep2["cases"])
    if rep2["mismatches"]:
        run.violation("random history: %s" % rep2["first"][0], files={"mismatches.json": rep2})
    # concurrent histories under the race detector, linearised by TLC
    nhist = 400 if tier == "thorough" else 80
    nlong = 200 if tier == "thorough" else 40
    hist = os.path.join(wd, "hist.ndjson")
    uni = ["-topics", json.dumps(u["topics"]), "-names", json.dumps(u["names"]), "-filters", json.dumps(u["filters"])]
    rc, out, err = lib.run_drive(drive_race, ["tree-conc", "-out", hist, "-histories", str(nhist), "-seed", str(seed),
                                              "-threads", "9" if tier == "thorough" else "6", "-ops", "5"] + uni, timeout=3000)
    # long histories: one writer toggling a hot topic, spinning readers (atomicity windows), no race detector (speed)
    rc2, out2, err2 = lib.run_drive(drive, ["tree-conc", "-out", hist + ".long", "-histories", str(nlong), "-seed", str(seed + 1),
                                            "-mode", "long", "-ops", "150"] + uni, timeout=3000)
    parse_report(out2, rc2, err2)
    with open(hist, "a") as f:
        for line in open(hist + ".long"):
            e = json.loads(line)
            e["h"] += nhist
            f.write(json.dumps(e) + "\n")
    nhist += nlong
    if "DATA RACE" in err:
        run.violation("data race reported by the Go race detector while goroutines use one topic.Tree "
                      "(a query result is read while a later operation rewrites it)", files={"race.txt": err[:20000]})
    rep3 = parse_report(out, rc, err)
    lcfg = """SPECIFICATION LSpec
CONSTANTS
  Topics <- MCTopics
  Values = {1, 2}
  QNames <- MCQNames
  QFilters <- MCQFilters
CONSTRAINT HW
POSTCONDITION Accepted
CHECK_DEADLOCK FALSE
"""
    open(os.path.join(wd, "TopicTreeLinMC.tla"), "w").write(mc.replace("MODULE TopicTreeMC", "MODULE TopicTreeLinMC").replace("EXTENDS TopicTree", "EXTENDS TopicTreeLin"))
    # substitute the trace path into the copied TopicTreeLin module
    r = lib.tlc(wd, "TopicTreeLinMC", lcfg, workers=1, deque=True, timeout=3000, defs={"TRACE": hist})
    acc = len(set(r.lines("ACCEPTED")))
    states += r.distinct; trans += r.generated
    if acc != nhist:
        rej = r.lines("REJECTED-AT")
        if not rej:
            raise lib.Infra("TopicTreeLin run ended without verdict:\n" + r.out[-2000:])
        run.violation("concurrent topic.Tree history is not linearisable w.r.t. TopicTree.tla; rejected at event %s" % rej[0][:300],
                      files={"history.ndjson": open(hist).read()[:3000000], "tlc.out": r.out[-5000:]})
    run.add(states=states, transitions=trans, traces_validated_against_impl=acc, distinct_nontrivial=changing,
            rule="every transition of the complete reachable graph of TopicTree.tla over topics %s x values {1,2} is one case: the source state is "
                 "rebuilt on a real tree along its BFS path, the operation applied and every query (Get/Match/MatchFirst/Search/SearchFirst/All/Count, "
                 "normalised String()) compared with the model's answers for the target state; earlier results are re-compared (snapshot clause); "
                 "%d random histories of %d ops; %d concurrent histories (%d of them long: one writer toggling a hot topic against spinning readers). "
                 "Non-trivial = state-changing transitions"
                 % (["/".join(t) for t in u["topics"]], nh, ln, nhist, nlong),
            exhaustive=True)
    run.assumptions = ["TLC explores the complete reachable graph for the stated universe", "Go race detector for the data-race clause",
                       "inv/ret events of concurrent histories are ordered under one mutex"]
