"""C10 - client: inbound QoS 2 exactly once, handshakes finish, ack only if accepted (Client.tla)."""
import brokerlib as B
import clientfam as F
import lib

LEVEL = "model_checking"


def check(run):
    import mc
    mc.client_mc(run, "C10")
    scripts = B.multi(F.incoming, run.seed, run.tier, 5)
    nacc, rejected, events, final = B.check_family(run, "C10", scripts, "c10", kind="client")
    run.add(distinct_nontrivial=len({lib.digest([s["steps"], s["config"]]) for s in scripts}),
            samples=[{"script": scripts[0]}, {"trace_head": B.sample_trace(events, scripts[0]["id"])}],
            rule="scenarios: broker scripts over {PUBLISH(id,qos,dup), PUBREL(id) known/unknown/repeated, drop + resume} for ids 1-3, callback returning an error at chosen "
                 "invocations, both callback timing modes, the connection failing before/after every acknowledgement the client writes followed by resumption and "
                 "retransmission. Every trace validated against Client.tla (callback once per QoS 2 handshake, PUBREC/PUBCOMP for every PUBLISH/PUBREL, ack only after an accepting callback)")
    run.assumptions = ["Client.tla at event granularity; wrapped session; harness-owned link; scripted broker sends exactly the scripted packets"]
