"""C03 - stream framing: any fragmentation yields the same packets; wire bytes are exact (StreamCases.tla, Stream.tla)."""
import os
import lib
from props.c18 import parse_report

LEVEL = "model_checking"


def check(run):
    tier, seed, wd = run.tier, run.seed, run.wd
    drive = lib.build_harness()
    # design level: the incremental decoder explored over every delivery schedule
    import mc
    mc.stream_mc(run, "C03")
    # spec -> code: reference streams + expected framing from TLC, every fragmentation replayed on the real code
    r = lib.tlc(wd, "StreamCases", "", timeout=3000, defs={"BIG": "TRUE" if tier == "thorough" else "FALSE", "OUT": wd})
    if not r.ok() or r.assume_failed or not r.lines("CASES"):
        raise lib.Infra("StreamCases failed:\n" + r.out[-2000:])
    ncases = sum(int(x) for x in r.lines("CASES")[0].split(","))
    with open(os.path.join(wd, "streamcases.ndjson"), "a") as f:
        f.write(open(os.path.join(wd, "hugecases.ndjson")).read())
    rc, out, err = lib.run_drive(drive, ["stream-replay", "-cases", os.path.join(wd, "streamcases.ndjson"), "-seed", str(seed),
                                         "-random", "60" if tier == "thorough" else "12", "-sockets", "1500" if tier == "thorough" else "200"], timeout=3000)
    if rc != 0:
        raise lib.Infra("stream-replay failed: " + (out + err)[-1500:])
    rep = parse_report(out, rc, err)
    run.add(evaluations=rep["cases"], samples=rep.get("samples", []), traces_validated_against_impl=rep["extra"]["fragmentations"],
            distinct_nontrivial=rep["extra"]["nontrivial_streams"], fragmentations=rep["extra"]["fragmentations"], socket_replays=rep["extra"]["socket_replays"],
            endings=rep["extra"]["endings"], streams=ncases,
            rule="TLC builds %d byte streams from reference encodings (whole packets, every truncation, read limits around the packet sizes, packets around the "
                 "1/2-byte remaining length and bufio's 4096 bytes, garbage headers) with the packets and the ending any receiver must obtain; the replayer feeds "
                 "EVERY composition of the streams up to 13 bytes and seeded random chunkings of the longer ones through packet.Decoder and BaseConn over a scripted "
                 "carrier, a rotating sample through real TCP and WebSocket loopback (one message per chunk), and sends whole-packet streams through BaseConn (async/sync "
                 "mix, flush timer) comparing the wire with the reference bytes. Non-trivial = streams with at least one packet and more than one fragmentation" % ncases)
    if rep["mismatches"]:
        run.violation("%d of %d fragmentation replays disagree with the reference framing; first: %s" % (rep["mismatches"], rep["cases"], rep["first"][0]),
                      files={"mismatches.json": rep})
    run.assumptions = ["MQTTCodec.tla / StreamCases.tla give the reference packets and ending of each stream", "Stream.tla: all delivery schedules of the incremental decoder (bounded)",
                       "TCP fragmentation on loopback is best effort (NoDelay + pauses)"]
