"""C17 - service survives any failure sequence: reconnects, resubscribes, keeps futures (Service.tla)."""
import brokerlib as B
import clientfam as F
import lib

LEVEL = "model_checking"


def check(run):
    scripts = B.multi(F.service, run.seed, run.tier, 5)
    known = {k["key"]: k["text"] for k in lib.known_findings("C17")}
    nacc, rejected, events, final = B.check_family(run, "C17", scripts, "c17", kind="service", known=known)
    run.add(distinct_nontrivial=len({lib.digest([s["steps"], s["config"]]) for s in scripts}),
            samples=[{"script": scripts[0]}, {"trace_head": B.sample_trace(events, scripts[0]["id"])}],
            rule="scenarios: failure schedules (dial refused, CONNECT unsendable, no CONNACK, denied, drop before/after the k-th operation, rejected SUBACK, failure during "
                 "resubscribe) x API call sequences (publish all QoS / subscribe / unsubscribe, before Start, offline and online, from several goroutines) x Start/Stop(true|false)/"
                 "restart, clean and persistent sessions. Every trace validated against Service.tla: commands FIFO, resubscription = exactly the current set, futures truthful "
                 "and surviving reconnects, Stop returns and cancels everything pending when asked to")
    run.assumptions = ["Service.tla abstracts the client underneath to its packets (Client.tla covers it)", "scripted broker; harness-owned link; waiter per future"]
