"""C02 - decoder totality / locality / fidelity on arbitrary bytes (MQTTCodec.tla Dec as reference, evaluated by TLC)."""
import json, os, subprocess
import lib
from props.c18 import parse_report

LEVEL = "exploration"


def check(run):
    tier, seed, wd = run.tier, run.seed, run.wd
    drive = lib.build_harness()
    r = lib.tlc(wd, "MQTTCodecVectors", "", timeout=3000, defs={"BIG": "FALSE", "OUT": wd})
    if not r.ok() or r.assume_failed:
        raise lib.Infra("MQTTCodecVectors failed:\n" + r.out[-2000:])
    rec = os.path.join(wd, "drec.ndjson")
    args = ["decode-record", "-out", rec, "-vectors", os.path.join(wd, "vectors.ndjson"), "-seed", str(seed)]
    if tier == "thorough":
        corpus = fuzz(wd, seed)
        args += ["-full", "-random", "60000", "-mutations", "150"]
        if corpus:
            args += ["-corpus", corpus]
    rc, out, err = lib.run_drive(drive, args, timeout=6000)
    rep = parse_report(out, rc, err)
    run.add(evaluations=rep["extra"]["records"], inputs=rep["cases"], categories=rep["extra"]["categories"])
    if rep["mismatches"]:
        run.violation("observed by the harness while decoding: %d problems; first: %s" % (rep["mismatches"], rep["first"][0]),
                      files={"mismatches.json": rep})
    r = lib.tlc(wd, "MQTTDecJudge", "", timeout=6000, defs={"TRACE": rec}, heap="24g" if tier == "thorough" else None)
    if not r.ok() or not r.lines("JUDGED"):
        raise lib.Infra("MQTTDecJudge failed:\n" + r.out[-2000:])
    judged, refok = [int(x) for x in r.lines("JUDGED")[0].split(",")]
    dis = r.lines("DISAGREE")
    known = r.lines("KNOWN")
    listed = {k["key"]: k["text"] for k in lib.known_findings("C02")}
    first_known = None
    if known:
        key = "ConnectOverRead"
        idx = int(known[0].split(",")[-1])
        first_known = idx
        if key in listed:
            run.known(key, listed[key] + " [%d records]" % len(known))
        else:
            dis = dis + ['"{\\"i\\":%d,\\"kind\\":\\"raw\\",\\"refok\\":false,\\"ok\\":true,\\"refn\\":0,\\"n\\":0,\\"fields\\":false}"' % idx]
    samples = []
    want = set()
    ds = [json.loads(lib.tla_unquote(d)) for d in dis[:2000]]
    want = {d["i"] for d in ds[:3]}
    with open(rec) as f:
        for k, ln in enumerate(f):
            if k in (5, 40000, 200000) or k in want:
                e = json.loads(ln)
                e["hex"] = bytes(e.pop("b")).hex() if "b" in e else "runs:" + json.dumps(e.pop("br"))[:300]
                if k in want:
                    want.discard(k)
                    ds0 = [d for d in ds if d["i"] == k][0]
                    ds0["hex"] = e["hex"]
                else:
                    samples.append(e)
    run.add(samples=samples)
    if ds:
        d = ds[0]
        run.violation("%d of %d recorded decode results disagree with the reference decoder; first: input %s (%s): reference ok=%s, library ok=%s, "
                      "consumed %s vs %s, fields differ=%s" % (len(dis), judged, d.get("hex", "?")[:100], d["kind"], d["refok"], d["ok"], d["refn"], d["n"], d["fields"]),
                      files={"disagreements.txt": "\n".join(dis[:300])})
    run.add(distinct_nontrivial=refok,
            rule="inputs: (a) header space 256 first bytes x variable-length integers over {00,01,02,7F,80,81,FF} (1-2 bytes complete, 3-4 bytes %s, "
                 "5-byte overflow forms) x short bodies; (b) mutations of every valid reference encoding <=300 bytes (bit flips, every byte +-1/0/FF, "
                 "truncation at every offset, extension, remaining-length edits, splicing); (c) random bytes%s. Each distinct input is presented raw, "
                 "embedded before two different tails, and through packet.Decoder; every presentation is one record judged by TLC against Dec. "
                 "Non-trivial = records the reference decoder accepts (a complete field-by-field comparison)"
                 % ("complete" if tier == "thorough" else "sampled", "; (d) coverage-guided fuzzing corpus" if tier == "thorough" else ""),
            exhaustive=False, records=judged, reference_accepts=refok, known_records=len(known))
    run.assumptions = ["MQTTCodec.tla Dec (header-declared extent only) is the oracle; leniencies L1-L5 are listed in the module and DESIGN.md",
                       "panics, consumed > supplied, aliasing and re-encodability are observed by the harness around every decode"]


def fuzz(wd, seed):
    """thorough tier: Go native coverage-guided fuzzing of the decoders for a time budget; returns the corpus directory"""
    cache = os.path.join(wd, "fuzzcache")
    os.makedirs(cache, exist_ok=True)
    env = dict(lib.GOENV)
    try:
        p = subprocess.run(["go", "test", "-tags", "verif", "-run", "^$", "-fuzz", "FuzzDecode", "-fuzztime", "120s",
                            "-test.fuzzcachedir", cache, "./fuzz/"], cwd=lib.HARNESS, env=env, capture_output=True, text=True, timeout=600)
    except subprocess.TimeoutExpired:
        return None
    d = os.path.join(cache, "FuzzDecode")
    if p.returncode != 0 and "panic" in (p.stdout + p.stderr):
        # the crasher is stored under testdata; feed it to the recorder as well (it will be reported there)
        td = os.path.join(lib.HARNESS, "fuzz", "testdata", "fuzz", "FuzzDecode")
        if os.path.isdir(td):
            os.makedirs(d, exist_ok=True)
            for f in os.listdir(td):
                raw = open(os.path.join(td, f)).read()
                os.rename(os.path.join(td, f), os.path.join(d, "crash-" + f))
    if not os.path.isdir(d):
        return None
    # corpus files are in the 'go test fuzz v1' text format; convert to raw bytes
    outd = os.path.join(wd, "corpus")
    os.makedirs(outd, exist_ok=True)
    import ast
    for i, f in enumerate(os.listdir(d)):
        try:
            lines = open(os.path.join(d, f)).read().splitlines()
            if len(lines) >= 2 and lines[1].startswith("[]byte("):
                b = ast.literal_eval("b" + lines[1][len("[]byte("):-1])
                open(os.path.join(outd, "c%d" % i), "wb").write(b)
        except Exception:
            pass
    return outd
