"""C07 - see DESIGN.md section 5 C07 (Broker.tla, family inbound)."""
import brokerlib as B
import brokerfam as F

LEVEL = "model_checking"
RULE = 'publisher scripts over {PUBLISH(id,dup), PUBREL(id), loss+resume} for 1-2 concurrent ids with the connection cut before/after every single broker-side operation, backend acknowledging synchronously / late from another goroutine / never, failing backend, unknown and repeated PUBREL; non-trivial = scenarios in which the injected fault fired or the ack mode is not synchronous'


def scripts_for(seed, tier):
    sc = F.inbound(seed, tier)
    return sc


def check(run):
    scripts = scripts_for(run.seed, run.tier)
    nacc, rejected, events, final = B.check_family(run, "C07", scripts, "c07")
    import mc
    mc.broker_mc(run, "C07")
    run.add(distinct_nontrivial=len({B.lib.digest([s["steps"], s["config"]]) for s in scripts}),
            samples=[{"script": scripts[0]}, {"trace_head": B.sample_trace(events, scripts[0]["id"])}],
            rule="scenarios: " + RULE + ". Every recorded trace is validated against Broker.tla by TLC (all placements of the silent steps); "
                 "rejected scenarios are re-driven slowly before being reported; distinct_nontrivial counts distinct scenario scripts")
    run.assumptions = ["Broker.tla at event granularity; harness-owned links (enqueue/dequeue and log entry atomic)",
                       "session hooks under the store's lock give the exact order of save/delete vs send/receive",
                       "scripted peers follow MQTT; a rejection at a harness event is an infrastructure error, not a verdict"]
