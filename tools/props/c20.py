"""C20 - see DESIGN.md section 5 C20 (Broker.tla, family protocol)."""
import brokerlib as B
import brokerfam as F

LEVEL = "model_checking"
RULE = 'every non-CONNECT packet as first packet, rejected authentication (with and without will), all sequences of length <= 2 of client packets after CONNECT (sampled in quick), pipelined SUBSCRIBE (1-8 filters, arbitrary ids) / UNSUBSCRIBE / PINGREQ with small token pools; non-trivial = every scenario'


def scripts_for(seed, tier):
    sc = B.multi(F.protocol, seed, tier, 3)
    return sc


def check(run):
    scripts = scripts_for(run.seed, run.tier)
    nacc, rejected, events, final = B.check_family(run, "C20", scripts, "c20")
    import mc
    mc.broker_mc(run, "C20")
    run.add(distinct_nontrivial=len({B.lib.digest([s["steps"], s["config"]]) for s in scripts}),
            samples=[{"script": scripts[0]}, {"trace_head": B.sample_trace(events, scripts[0]["id"])}],
            rule="scenarios: " + RULE + ". Every recorded trace is validated against Broker.tla by TLC (all placements of the silent steps); "
                 "rejected scenarios are re-driven slowly before being reported; distinct_nontrivial counts distinct scenario scripts")
    run.assumptions = ["Broker.tla at event granularity; harness-owned links (enqueue/dequeue and log entry atomic)",
                       "session hooks under the store's lock give the exact order of save/delete vs send/receive",
                       "scripted peers follow MQTT; a rejection at a harness event is an infrastructure error, not a verdict"]
