"""C01 - codec round trip and Len() (MQTTCodec.tla as reference codec, evaluated by TLC)."""
import json, os
import lib
from props.c18 import parse_report

LEVEL = "exploration"


def check(run):
    tier, seed, wd = run.tier, run.seed, run.wd
    drive = lib.build_harness()
    # spec -> code: TLC enumerates the packet grid and writes the mandated wire images
    r = lib.tlc(wd, "MQTTCodecVectors", "", timeout=3000, defs={"BIG": "TRUE" if tier == "thorough" else "FALSE", "OUT": wd})
    if not r.ok() or r.assume_failed or not r.lines("VECTORS"):
        raise lib.Infra("MQTTCodecVectors failed (the reference grid is inconsistent):\n" + r.out[-2000:])
    nvec = int(r.lines("VECTORS")[0])
    rc, out, err = lib.run_drive(drive, ["codec-vectors", "-in", os.path.join(wd, "vectors.ndjson")], timeout=3000)
    rep = parse_report(out, rc, err)
    run.add(evaluations=rep["cases"], samples=rep.get("samples", []))
    if rep["mismatches"]:
        run.violation("library codec disagrees with the reference codec on %d of %d vectors; first: %s"
                      % (rep["mismatches"], rep["cases"], rep["first"][0]), files={"mismatches.json": rep})
    # code -> spec: random well-formed packets encoded by the library, judged by TLC
    nrec = 30000 if tier == "thorough" else 4000
    rec = os.path.join(wd, "crec.ndjson")
    rc, out, err = lib.run_drive(drive, ["codec-record", "-out", rec, "-n", str(nrec), "-seed", str(seed)])
    rep2 = parse_report(out, rc, err)
    if rep2["mismatches"]:
        run.violation("library refuses or mis-sizes a well-formed packet: " + rep2["first"][0], files={"mismatches.json": rep2})
    r = lib.tlc(wd, "MQTTCodecJudge", "", timeout=3000, defs={"TRACE": rec})
    if not r.ok() or not r.lines("JUDGED"):
        raise lib.Infra("MQTTCodecJudge failed:\n" + r.out[-2000:])
    judged = int(r.lines("JUDGED")[0])
    dis = r.lines("DISAGREE")
    run.add(evaluations=judged, samples=rep2.get("samples", []))
    if dis:
        d = json.loads(lib.tla_unquote(dis[0]))
        run.violation("%d of %d packets encoded by the library differ from the reference encoding; first: record %d wellformed=%s want=%s got=%s len=%s"
                      % (len(dis), judged, d["i"], d["wellformed"], bytes(d["want"]).hex()[:120], bytes(d["got"]).hex()[:120], d["len"]),
                      files={"disagreements.txt": "\n".join(dis[:100])})
    run.add(distinct_nontrivial=rep["extra"]["nontrivial"] + judged,
            rule="spec->code: %d packets of the grid enumerated by TLC (every type, flag combination, ids {1,2,255,256,65534,65535}, remaining "
                 "length B-1/B/B+1 for every reachable varint boundary up to %s, field lengths 0/1/65534/65535): Len(), Encode (exact and larger dirty "
                 "buffer), Decode, DetectPacket and three stream-encoder orders compared with the reference wire image; code->spec: %d random "
                 "well-formed packets encoded by the library and judged by TLC (Enc(p) = bytes, Len, reference round trip). Non-trivial = vectors "
                 "with remaining length > 2 plus judged random packets" % (nvec, "268435455" if tier == "thorough" else "2097153", judged),
            exhaustive=True, vectors=nvec, types=rep["extra"]["types"])
    run.assumptions = ["MQTTCodec.tla (written from the MQTT 3.1.1 text) is the oracle", "TLC's evaluation of it",
                       "the harness only expands run-length images and builds packets through Type.New()"]
