"""C18 - packet ids and packet store (Session.tla, SessionLin.tla)."""
import json, os
import lib

LEVEL = "model_checking"

CFG = """SPECIFICATION Spec
CONSTANTS
  Ids = {%s}
  Mode = "%s"
  MaxNext = 3
%s
PROPERTIES IdNonZero IdSuccessor ResetRestartsAtOne DirectionsIndependent StoreIsMap
INVARIANTS TypeOK OrbitClosesAt65535
%s
CHECK_DEADLOCK FALSE
"""


def edges_of(res, path):
    n = 0
    with open(path, "w") as f:
        for p in res.lines("EDGE"):
            f.write(lib.tla_unquote(p) + "\n")
            n += 1
    return n


def model_violation(run, r, what):
    if r.invariant or not r.ok():
        # a violation inside the reference model itself is a modelling error, not a finding about gomqtt
        raise lib.Infra("Session.tla (%s) failed in TLC itself: %s\n%s" % (what, r.invariant, r.out[-1500:]))


def replay(run, drive, wd, edges, ids, what):
    rc, out, err = lib.run_drive(drive, ["session-replay", "-edges", edges, "-ids", json.dumps(ids)])
    rep = parse_report(out, rc, err)
    run.add(evaluations=rep["cases"])
    if rep["mismatches"]:
        run.violation("%s: real session objects disagree with Session.tla on %d of %d transitions; first: %s"
                      % (what, rep["mismatches"], rep["cases"], rep["first"][0]),
                      files={"mismatches.json": rep, "howto.txt": "edges from TLC (%s); drive session-replay" % what})
    return rep


def parse_report(out, rc, err):
    for ln in out.splitlines()[::-1]:
        if ln.startswith("REPORT "):
            return json.loads(ln[7:])
    raise lib.Infra("driver gave no report (rc=%s): %s" % (rc, (out + err)[-2000:]))


def check(run):
    tier, seed, wd = run.tier, run.seed, run.wd
    if True:
        drive = lib.build_harness()
        drive_race = lib.build_harness(race=True)
        ids = [0, 1, 2] if tier == "thorough" else [0, 1]
        states = trans = 0
        # 1. counter: all 65536 states, every NextID/Reset transition generated and replayed
        r = lib.tlc(wd, "Session", CFG % ("1", "counter", "VIEW view", "ACTION_CONSTRAINT EmitEdge"), workers=1, timeout=600)
        model_violation(run, r, "counter")
        states += r.distinct; trans += r.generated
        n = edges_of(r, os.path.join(wd, "counter.ndjson"))
        if n != 2 * 65536:
            raise lib.Infra("expected 131072 counter edges, got %d" % n)
        rep = replay(run, drive, wd, os.path.join(wd, "counter.ndjson"), [1], "counter (all 65536 states)")
        samples = rep.get("samples", [])[:2]
        # 2. orbit: the id sequence from 1 first returns to 1 after exactly 65535 allocations
        r = lib.tlc(wd, "Session", CFG % ("1", "orbit", "", ""), workers=1, timeout=600)
        model_violation(run, r, "orbit")
        states += r.distinct; trans += r.generated
        # 3. store: all histories over the id universe, both directions
        r = lib.tlc(wd, "Session", CFG % (", ".join(map(str, ids)), "store", "VIEW view", "ACTION_CONSTRAINT EmitEdge"), workers=1, timeout=1800)
        model_violation(run, r, "store")
        states += r.distinct; trans += r.generated
        n = edges_of(r, os.path.join(wd, "store.ndjson"))
        rep = replay(run, drive, wd, os.path.join(wd, "store.ndjson"), ids, "store (ids %s)" % ids)
        samples += rep.get("samples", [])[:2]
        store_ops = rep.get("extra", {}).get("ops", {})
        # 4. full 65535-allocation windows on the real counter
        nst = 64 if tier == "thorough" else 12
        rc, out, err = lib.run_drive(drive, ["session-window", "-starts", str(nst), "-seed", str(seed)])
        rep = parse_report(out, rc, err)
        run.add(evaluations=rep["cases"])
        if rep["mismatches"]:
            run.violation("allocation window: " + rep["first"][0], files={"mismatches.json": rep})
        # 5. concurrent histories under the race detector, linearised by TLC
        nh = 300 if tier == "thorough" else 60
        hist = os.path.join(wd, "hist.ndjson")
        rc, out, err = lib.run_drive(drive_race, ["session-conc", "-out", hist, "-histories", str(nh), "-seed", str(seed),
                                                  "-threads", "9" if tier == "thorough" else "6", "-ops", "5", "-ids", json.dumps(ids)])
        if "DATA RACE" in err:
            run.violation("data race reported by the Go race detector in concurrent session use",
                          files={"race.txt": err[:20000]})
        rep = parse_report(out, rc, err)
        cfg = open(os.path.join(lib.SPEC, "SessionLin.cfg")).read().replace("Ids = {0, 1}", "Ids = {%s}" % ", ".join(map(str, ids)))
        r = lib.tlc(wd, "SessionLin", cfg, workers=1, deque=True, timeout=900, defs={"TRACE": hist})
        acc = len(set(r.lines("ACCEPTED")))
        states += r.distinct; trans += r.generated
        if acc != nh:
            rej = r.lines("REJECTED-AT")
            if not rej:
                raise lib.Infra("SessionLin run ended without verdict:\n" + r.out[-2000:])
            run.violation("concurrent session history is not linearisable w.r.t. Session.tla; rejected at %s" % rej[0][:300],
                          files={"history.ndjson": open(hist).read()[:2000000], "tlc.out": r.out[-5000:]})
        run.add(states=states, transitions=trans, traces_validated_against_impl=acc,
                distinct_nontrivial=sum(v for k, v in store_ops.items() if k in ("save", "delete", "reset")) + 65536,
                rule="every transition of the reference model is one case (131072 counter transitions over all 65536 states; "
                     "all store transitions over ids %s x 2 directions x 3 packet kinds); non-trivial = state-changing "
                     "(NextID, Save, Delete, Reset) transitions; plus %d real 65535-allocation windows and %d concurrent histories" % (ids, nst, nh),
                exhaustive=True, samples=samples, store_ops=store_ops)
        run.assumptions = ["TLC explores the complete reachable graph of Session.tla for the stated constants",
                           "the replayer rebuilds each source state through the public API (NewIDCounterWithNext, SavePacket)",
                           "concurrent histories: inv/ret order taken under one mutex; Go race detector"]
