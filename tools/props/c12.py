"""C12 - see DESIGN.md section 5 C12 (Broker.tla, family wills)."""
import brokerlib as B
import brokerfam as F

LEVEL = "model_checking"
RULE = 'termination cause (DISCONNECT, close, cut, protocol error, second CONNECT, keep-alive expiry, takeover, backend shutdown, injected fault, rejected authentication) x protocol state (idle, mid QoS1/2 handshake inbound/outbound, pipelined) x will QoS/retain, observers online / offline persistent / subscribing later; non-trivial = every scenario (each has a will owed or forbidden)'


def scripts_for(seed, tier):
    sc = F.wills(seed, tier)
    return sc


def check(run):
    scripts = scripts_for(run.seed, run.tier)
    nacc, rejected, events, final = B.check_family(run, "C12", scripts, "c12")
    import mc
    mc.broker_mc(run, "C12")
    run.add(distinct_nontrivial=len({B.lib.digest([s["steps"], s["config"]]) for s in scripts}),
            samples=[{"script": scripts[0]}, {"trace_head": B.sample_trace(events, scripts[0]["id"])}],
            rule="scenarios: " + RULE + ". Every recorded trace is validated against Broker.tla by TLC (all placements of the silent steps); "
                 "rejected scenarios are re-driven slowly before being reported; distinct_nontrivial counts distinct scenario scripts")
    run.assumptions = ["Broker.tla at event granularity; harness-owned links (enqueue/dequeue and log entry atomic)",
                       "session hooks under the store's lock give the exact order of save/delete vs send/receive",
                       "scripted peers follow MQTT; a rejection at a harness event is an infrastructure error, not a verdict"]
