"""C06 - broker delivers to exactly the matching subscribers: once, intact, QoS-capped (Broker.tla)."""
import brokerlib as B
from brokerlib import Gen, TOPICS, FILTERS

LEVEL = "model_checking"


def scenarios(seed, tier):
    g = Gen("deliver", seed, 6000)
    rng = g.rng
    n = 400 if tier == "thorough" else 70
    for k in range(n):
        nsub = rng.randint(1, 3 if tier == "quick" else 5)
        subs = ["S%d" % i for i in range(1, nsub + 1)]
        steps = []
        for s in subs:
            steps.append(Gen.open(s, clean=rng.random() < 0.5))
            fl = rng.sample(FILTERS, rng.randint(1, 4))
            steps.append(Gen.sub(s, *[(f, rng.randint(0, 2)) for f in fl]))
        steps.append(Gen.open("P"))
        if rng.random() < 0.3:
            steps.append(Gen.sub("P", (rng.choice(FILTERS), rng.randint(0, 2))))      # the publisher subscribes too (own queue)
        cnt = 0
        for j in range(rng.randint(2, 7)):
            r = rng.random()
            if r < 0.6:
                cnt += 1
                size = rng.choice([0, 0, 0, 10, 200, 5000, 65000]) if rng.random() < 0.3 else 0
                steps.append(Gen.pub("P", rng.choice(TOPICS), rng.randint(0, 2), "P#%d" % cnt, size=size))
            elif r < 0.75:
                s = rng.choice(subs)
                steps.append(Gen.sub(s, *[(f, rng.randint(0, 2)) for f in rng.sample(FILTERS, rng.randint(1, 2))]))   # repeated subscription replaces the QoS
            elif r < 0.9:
                steps.append(Gen.unsub(rng.choice(subs), *rng.sample(FILTERS, rng.randint(1, 2))))
            else:
                cnt += 1
                steps.append(Gen.pub(rng.choice(subs), rng.choice(TOPICS), rng.randint(0, 2), "S#%d" % cnt))
        mode = "concurrent" if k % 3 == 2 else "step"
        g.add(steps, mode=mode, window=rng.choice([1, 2, 10]), queue=rng.choice([3, 10, 100]))
    # directed: one SUBSCRIBE with several filters of different QoS; unsubscribe then publish; overlapping filters
    for q1, q2, pq in [(0, 2, 1), (2, 0, 2), (1, 0, 2), (0, 1, 2), (2, 1, 0)]:
        g.add([Gen.open("S1", clean=False), Gen.sub("S1", ("a", q1), ("b", q2)), Gen.open("P"),
               Gen.pub("P", "a", pq, "P#1"), Gen.pub("P", "b", pq, "P#2"),
               Gen.unsub("S1", "a"), Gen.pub("P", "a", pq, "P#3"), Gen.pub("P", "b", pq, "P#4"),
               Gen.sub("S1", ("b", q1)), Gen.pub("P", "b", pq, "P#5")], window=2)
    # directed: nested filters of one session - removing one must not disturb the other (tree pruning)
    for parent, child, ptopic, ctopic in [("a", "a/b", "a", "a/b"), ("a", "a/+", "a", "a/b"), ("a", "a/#", "a", "a/b"), ("a/b", "a/b/c", "a/b", "a/b/c"),
                                          ("+", "+/b", "a", "a/b"), ("b", "b/x/y", "b", "b/x/y")]:
        for first, second in [(parent, child), (child, parent)]:
            g.add([Gen.open("S1", clean=False), Gen.sub("S1", (first, 1)), Gen.sub("S1", (second, 1)), Gen.open("P"),
                   Gen.unsub("S1", child), Gen.pub("P", ptopic, 1, "P#1"), Gen.pub("P", ctopic, 1, "P#2"),
                   Gen.sub("S1", (child, 2)), Gen.unsub("S1", parent), Gen.pub("P", ptopic, 1, "P#3"), Gen.pub("P", ctopic, 2, "P#4")], window=3)
    # directed: cap must survive an unsubscribe while the message waits behind a full window
    g.add([Gen.open("S1", clean=False), Gen.do("ackmode", "S1", mode="manual"), Gen.sub("S1", ("a", 0), ("b", 1)), Gen.open("P"),
           Gen.pub("P", "b", 1, "P#1"), Gen.pub("P", "a", 1, "P#2"), Gen.unsub("S1", "a"), Gen.do("ack", "S1", n=1),
           Gen.do("ack", "S1", n=0)], window=1)
    return g.scripts


def check(run):
    import mc
    mc.broker_mc(run, "C06")
    scripts = scenarios(run.seed, run.tier)
    nacc, rejected, events, final = B.check_family(run, "C06", scripts, "c06")
    nontriv = sum(1 for s in scripts if sum(1 for st in s["steps"] if st["do"] == "pub") >= 2)
    run.add(distinct_nontrivial=nontriv, samples=[{"script": scripts[0]}, {"trace_head": B.sample_trace(events, scripts[0]["id"])}],
            rule="scenarios: 1-5 subscribers with 1-4 (overlapping, wildcard) filters per SUBSCRIBE and different QoS, a publisher (sometimes subscribed itself), "
                 "interleaved publishes (all QoS, payloads up to 64 KiB), re-subscriptions and unsubscriptions, run step-by-step at quiescence and with all "
                 "clients concurrently; every recorded trace is validated against Broker.tla (matching at fan-out, one copy per session, intact, QoS cap, "
                 "settlement: everything queued is delivered). Non-trivial = scenarios with at least two publishes")
    run.assumptions = ["Broker.tla models MemoryBackend/Client at event granularity; harness-owned links make channel contents exact",
                       "rejected scenarios are re-driven with slow timing before being reported", "TLC explores all placements of the silent fan-out steps"]
