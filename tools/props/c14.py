"""C14 - see DESIGN.md section 5 C14 (Broker.tla, family hostile)."""
import brokerlib as B
import brokerfam as F

LEVEL = "model_checking"
RULE = 'hostile peer sending arbitrary valid packets in arbitrary order (unsolicited acks, server-only packets, wildcard/NUL/empty topics, second CONNECT), token exhaustion, 64 KiB topics, backend calls failing at every call site (1st-3rd call), backend shutdown racing with connection setup, witnesses exchanging traffic; non-trivial = every scenario'


def scripts_for(seed, tier):
    sc = F.hostile(seed, tier)
    return sc


def check(run):
    scripts = scripts_for(run.seed, run.tier)
    nacc, rejected, events, final = B.check_family(run, "C14", scripts, "c14", also=("C14",))
    import mc
    mc.broker_mc(run, "C14")
    run.add(distinct_nontrivial=len({B.lib.digest([s["steps"], s["config"]]) for s in scripts}),
            samples=[{"script": scripts[0]}, {"trace_head": B.sample_trace(events, scripts[0]["id"])}],
            rule="scenarios: " + RULE + ". Every recorded trace is validated against Broker.tla by TLC (all placements of the silent steps); "
                 "rejected scenarios are re-driven slowly before being reported; distinct_nontrivial counts distinct scenario scripts")
    run.assumptions = ["Broker.tla at event granularity; harness-owned links (enqueue/dequeue and log entry atomic)",
                       "session hooks under the store's lock give the exact order of save/delete vs send/receive",
                       "scripted peers follow MQTT; a rejection at a harness event is an infrastructure error, not a verdict"]
