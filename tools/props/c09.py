"""C09 - client keeps QoS>=1 publishes until acked; futures resolve truthfully and always (Client.tla)."""
import brokerlib as B
import clientfam as F
import lib

LEVEL = "model_checking"


def check(run):
    import mc
    mc.client_mc(run, "C09")
    scripts = B.multi(F.outgoing, run.seed, run.tier, 4)
    known = {k["key"]: k["text"] for k in lib.known_findings("C09")}
    nacc, rejected, events, final = B.check_family(run, "C09", scripts, "c09", kind="client", known=known)
    run.add(distinct_nontrivial=len({lib.digest([s["steps"], s["config"]]) for s in scripts}),
            samples=[{"script": scripts[0]}, {"trace_head": B.sample_trace(events, scripts[0]["id"])}],
            rule="scenarios: API call sequences (publish all QoS / subscribe / unsubscribe / disconnect / close, also from several goroutines) against a scripted broker "
                 "(CONNACK variants, acknowledgements in/out of order, missing, spurious), the connection dropped before/after every client-side operation followed by a "
                 "new client resuming the same session, failures injected into every session operation, dial/CONNECT failures, rejected subscriptions, a publish racing "
                 "with connection loss on a buffered transport. Every trace validated against Client.tla; a waiter observes every future; accessors are probed in every state")
    run.assumptions = ["Client.tla at event granularity; wrapped session (operation + log entry atomic); harness-owned link",
                       "known finding ClientDieVsApiRace is accepted only with exactly that deviation enabled (KNOWN_FINDINGS.txt)"]
