"""C16 - see DESIGN.md section 5 C16 (Broker.tla, family resume)."""
import brokerlib as B
import brokerfam as F

LEVEL = "model_checking"
RULE = 'subscriber acknowledgement patterns (immediate, batched, out of order, reconnect in between) over streams of 1..20 x window messages of mixed QoS, windows 1..10, plus cut/resume at every operation; non-trivial = scenarios with more messages than window slots'


def scripts_for(seed, tier):
    sc = F.resume(seed, tier)
    return sc


def check(run):
    scripts = scripts_for(run.seed, run.tier)
    nacc, rejected, events, final = B.check_family(run, "C16", scripts, "c16")
    import mc
    mc.broker_mc(run, "C16")
    run.add(distinct_nontrivial=len({B.lib.digest([s["steps"], s["config"]]) for s in scripts}),
            samples=[{"script": scripts[0]}, {"trace_head": B.sample_trace(events, scripts[0]["id"])}],
            rule="scenarios: " + RULE + ". Every recorded trace is validated against Broker.tla by TLC (all placements of the silent steps); "
                 "rejected scenarios are re-driven slowly before being reported; distinct_nontrivial counts distinct scenario scripts")
    run.assumptions = ["Broker.tla at event granularity; harness-owned links (enqueue/dequeue and log entry atomic)",
                       "session hooks under the store's lock give the exact order of save/delete vs send/receive",
                       "scripted peers follow MQTT; a rejection at a harness event is an infrastructure error, not a verdict"]
