"""C15 - see DESIGN.md section 5 C15 (Broker.tla, family order)."""
import brokerlib as B
import brokerfam as F

LEVEL = "model_checking"
RULE = 'service: bursts larger than the command queue from one goroutine before the service is online (FIFO); broker: 1-4 publishers sending numbered messages at each QoS to overlapping topics read by 1-3 subscribers with different granted QoS, windows 1..10, subscriber connections cut and resumed while messages are unacknowledged, plus the resume family (resend order); non-trivial = scenarios with >= 2 messages of one publisher reaching one subscriber'


def scripts_for(seed, tier):
    sc = F.order(seed, tier) + F.resume(seed + 1, tier, family="resume15")[:120 if tier == "quick" else 100000]
    return sc


def check(run):
    scripts = scripts_for(run.seed, run.tier)
    nacc, rejected, events, final = B.check_family(run, "C15", scripts, "c15")
    # service half: commands of one caller are carried out in the order issued, also when the command queue overflows (Service.tla)
    import clientfam
    sscripts = clientfam.service_order(run.seed, run.tier)
    B.check_family(run, "C15", sscripts, "c15s", kind="service")
    import mc
    mc.broker_mc(run, "C15")
    run.add(distinct_nontrivial=len({B.lib.digest([s["steps"], s["config"]]) for s in scripts}),
            samples=[{"script": scripts[0]}, {"trace_head": B.sample_trace(events, scripts[0]["id"])}],
            rule="scenarios: " + RULE + ". Every recorded trace is validated against Broker.tla by TLC (all placements of the silent steps); "
                 "rejected scenarios are re-driven slowly before being reported; distinct_nontrivial counts distinct scenario scripts")
    run.assumptions = ["Broker.tla at event granularity; harness-owned links (enqueue/dequeue and log entry atomic)",
                       "session hooks under the store's lock give the exact order of save/delete vs send/receive",
                       "scripted peers follow MQTT; a rejection at a harness event is an infrastructure error, not a verdict"]
