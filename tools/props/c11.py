"""C11 - see DESIGN.md section 5 C11 (Broker.tla, family retained)."""
import brokerlib as B
import brokerfam as F

LEVEL = "model_checking"
RULE = 'histories of retained / non-retained / empty publishes over a small topic universe by two publishers interleaved with subscriptions using every filter of the bounded filter set (all QoS), offline persistent subscribers, retained wills, parent/child clearing; non-trivial = scenarios with at least one retained message replayed'


def scripts_for(seed, tier):
    sc = B.multi(F.retained, seed, tier, 4)
    return sc


def check(run):
    scripts = scripts_for(run.seed, run.tier)
    nacc, rejected, events, final = B.check_family(run, "C11", scripts, "c11")
    import mc
    mc.broker_mc(run, "C11")
    run.add(distinct_nontrivial=len({B.lib.digest([s["steps"], s["config"]]) for s in scripts}),
            samples=[{"script": scripts[0]}, {"trace_head": B.sample_trace(events, scripts[0]["id"])}],
            rule="scenarios: " + RULE + ". Every recorded trace is validated against Broker.tla by TLC (all placements of the silent steps); "
                 "rejected scenarios are re-driven slowly before being reported; distinct_nontrivial counts distinct scenario scripts")
    run.assumptions = ["Broker.tla at event granularity; harness-owned links (enqueue/dequeue and log entry atomic)",
                       "session hooks under the store's lock give the exact order of save/delete vs send/receive",
                       "scripted peers follow MQTT; a rejection at a harness event is an infrastructure error, not a verdict"]
