"""Exhaustive model checking of the design-level specifications (bounded configurations).

Every config is run on the faithful model (must pass: a failure is a defect of the MODEL, reported as
infrastructure, never as a violation of the code - verdicts on the code come only from conformance),
and with named deviations (must FAIL on the named invariant: the invariants are not vacuous)."""
import os
import lib


def broker_mc(run, prop):
    # filled in by BrokerMC.tla (see DESIGN.md); until then only trace validation contributes states
    return


def _cfg(name, **subst):
    t = open(os.path.join(lib.SPEC, name)).read()
    for k, v in subst.items():
        t = t.replace("@@%s@@" % k, v)
    return t


def _expect(r, what, bad=None):
    """bad=None: the run must finish clean; otherwise it must violate the invariant/property `bad`"""
    if bad is None:
        if not r.ok() or not r.finished or r.invariant:
            raise lib.Infra("design model %s does not satisfy its own properties (model defect, not a code verdict):\n%s" % (what, r.out[-2500:]))
    else:
        if r.invariant is None or (bad != "temporal" and r.invariant != bad and bad not in r.out):
            raise lib.Infra("deviation run %s did not violate %s (vacuous invariant?):\n%s" % (what, bad, r.out[-2500:]))


ALL = ("0..Total", "1..Total")
STREAM_D = [   # packets, limits, cuts, steps
    ("<<P2, P3, P2>>", "{0, 2, 3}") + ALL,
    ("<<P3, P130, P2>>", "{0, 3, 129, 130}") + ALL,
    ("<<P2, PBad, P2>>", "{0}") + ALL,
    ("<<P4, P2, P4>>", "{0, 3, 4}") + ALL,
]
STREAM_D_THOROUGH = [
    ("<<P130, P130, P3>>", "{0, 129, 130, 131}") + ALL,
    ("<<P2, P3, P4, P2, P3>>", "{0, 2, 3, 4}") + ALL,
    ("<<P3, PBad, P130>>", "{0, 3}") + ALL,
    ("<<P16K, P2>>", "{0, 16387, 16388}", "{0, 1, 3, 4, 5, 4096, 4097, 16387, 16388, 16389, 16390}", "{1, 2, 4095, 4096, 4097, 8192}"),
]
STREAM_C = [   # senders, per sender, sync rule
    ('"s1", "s2"', "2", "i = 2"),
    ('"s1", "s2", "s3"', "1", 's = "s1"'),
]
STREAM_C_THOROUGH = [
    ('"s1", "s2", "s3"', "2", 's = "s1" \\/ i = 2'),
    ('"s1", "s2"', "3", "i = 3"),
    ('"s1", "s2", "s3", "s4"', "1", 's \\in {"s1", "s2"}'),
]


def stream_mc(run, prop):
    """Stream.tla: decoder over all delivery schedules (C03), BaseConn senders/closer/carrier over all interleavings (C19)."""
    wd, tier = run.wd, run.tier
    states = trans = 0
    configs = []
    if prop == "C03":
        for pk, lim, cuts, steps in STREAM_D + (STREAM_D_THOROUGH if tier == "thorough" else []):
            r = lib.tlc(wd, "StreamMC", _cfg("StreamD.cfg", DEV=""), timeout=1500,
                        defs={"PKTS": pk, "LIMITS": lim, "CUTS": cuts, "STEPS": steps})
            _expect(r, "StreamD %s" % pk)
            states += r.distinct; trans += r.generated
            configs.append("decoder %s limits %s: %d states" % (pk, lim, r.distinct))
        r = lib.tlc(wd, "StreamMC", _cfg("StreamD.cfg", DEV='"LimitAfterRead"'), timeout=600,
                    defs={"PKTS": "<<P2, P4, P2>>", "LIMITS": "{3}", "CUTS": "0..Total", "STEPS": "1..Total"})
        _expect(r, "StreamD LimitAfterRead", "LimitBeforeBuffer")
        r = lib.tlc(wd, "StreamMC", _cfg("StreamD.cfg", DEV='"EofHidesPartial"'), timeout=600,
                    defs={"PKTS": "<<P2, P4, P2>>", "LIMITS": "{0}", "CUTS": "0..Total", "STEPS": "1..Total"})
        _expect(r, "StreamD EofHidesPartial", "SameAsReference")
        run.add(states=states, transitions=trans, exhaustive=True, design_configs=configs,
                design_deviations=["LimitAfterRead -> LimitBeforeBuffer violated", "EofHidesPartial -> SameAsReference violated"])
    else:
        for snd, per, sync in STREAM_C + (STREAM_C_THOROUGH if tier == "thorough" else []):
            r = lib.tlc(wd, "StreamMC", _cfg("StreamC.cfg", DEV="", SENDERS=snd, PER=per), timeout=2500,
                        defs={"PKTS": "<<P2>>", "LIMITS": "{0}", "SYNC": sync})
            _expect(r, "StreamC %s x %s" % (snd, per))
            states += r.distinct; trans += r.generated
            configs.append("senders {%s} x %s sends, flushed when %s: %d states" % (snd, per, sync, r.distinct))
        for dev, bad in (("NoSendMutex", "WireWhole"), ("CloseBeforeFlush", "CloseFlushesAccepted"), ("CloseSkipsMutex", "WireWhole"),
                         ("NoStickyError", "temporal")):
            r = lib.tlc(wd, "StreamMC", _cfg("StreamC.cfg", DEV='"%s"' % dev, SENDERS='"s1", "s2"', PER="2"), timeout=900,
                        defs={"PKTS": "<<P2>>", "LIMITS": "{0}", "SYNC": "i = 2"})
            _expect(r, "StreamC " + dev, bad)
        run.add(states=states, transitions=trans, exhaustive=True, design_configs=configs,
                design_deviations=["NoSendMutex -> WireWhole", "CloseBeforeFlush -> CloseFlushesAccepted", "CloseSkipsMutex -> WireWhole",
                                   "NoStickyError -> BufferedSendFailsEventually"])
