"""Exhaustive model checking of the design-level specifications (bounded configurations).

Every config is run on the faithful model (must pass: a failure is a defect of the MODEL, reported as
infrastructure, never as a violation of the code - verdicts on the code come only from conformance),
and with named deviations (must FAIL on the named invariant: the invariants are not vacuous)."""
import os
import lib


BROKER_CHECKED = '"Q2HandedOnce", "InflightLeWindow", "WillAtMostOnce", "TerminateAtMostOnce", "IncomingKeptUntilHandedOn"'
BROKER_INV = "Q2Once InflightLeWindow WillOnce OneHolder NoDuplicateDelivery OrderKept NoLoss ConnackFirst NothingBeforeConnect DeniedGetsOnlyConnack RetainedAtMostOncePerSubscribe LiveCopiesNotFlagged"


def _scripts(d):
    return "[c \\in Conns |-> CASE " + " [] ".join('c = "%s" -> <<%s>>' % (k, v) for k, v in d.items()) + "]"


def _after(d, conns):
    return "[c \\in Conns |-> CASE " + " [] ".join('c = "%s" -> {%s}' % (c, ", ".join('"%s"' % x for x in d.get(c, []))) for c in conns) + "]"


# name -> configuration of BrokerMC.tla
BROKER_CFGS = {
    # window 1, three messages, no failures: order, window, once
    "flow": dict(scripts={"p": 'Connect("pub", TRUE, FALSE), Pub(1, "m1", 1), Pub(2, "m2", 1), Pub(3, "m3", 0)', "s1": 'Connect("sub", FALSE, FALSE), Sub(1, 1)'},
                 skeys='"t:p", "s:sub"', need='"s:sub"', cuts=0, cutconns="", window=1,
                 witnesses=["W_NothingOwed", "W_WindowNeverFull", "W_FewReceived"]),
    # the subscriber's connection is cut anywhere, a second connection resumes the session
    "resume": dict(scripts={"p": 'Connect("pub", TRUE, FALSE), Pub(1, "m1", 1), Pub(2, "m2", 2)', "s1": 'Connect("sub", FALSE, FALSE), Sub(1, 2)', "s2": 'Connect("sub", FALSE, FALSE)'},
                   after={"s2": ["s1"]}, skeys='"t:p", "s:sub"', need='"s:sub"', cuts=1, cutconns='"s1"', window=2,
                   witnesses=["W_NoResume", "W_NoRedelivery", "W_NothingOwed"]),
    # the publisher's connection is cut anywhere during a QoS 2 exchange, its next connection releases again
    "release": dict(scripts={"p": 'Connect("pub", FALSE, FALSE), Pub(1, "m1", 2)', "p2": 'Connect("pub", FALSE, FALSE), Rel(1)', "s1": 'Connect("sub", FALSE, FALSE), Sub(1, 2)'},
                    after={"p2": ["p"]}, skeys='"s:pub", "s:sub"', need='"s:sub"', cuts=1, cutconns='"p"', window=2,
                    witnesses=["W_NoKnownRelease", "W_NoUnknownRelease"], devs=[("PubcompBeforeDelete", "Q2HandedOnce")]),
    "resume1": dict(scripts={"p": 'Connect("pub", TRUE, FALSE), Pub(1, "m1", 1)', "s1": 'Connect("sub", FALSE, FALSE), Sub(1, 1)', "s2": 'Connect("sub", FALSE, FALSE)'},
                    after={"s2": ["s1"]}, skeys='"t:p", "s:sub"', need='"s:sub"', cuts=1, cutconns='"s1"', window=1,
                    witnesses=["W_NoResume", "W_NoRedelivery", "W_NothingOwed"]),
    "takeover1": dict(scripts={"s1": 'Connect("sub", FALSE, TRUE), Sub(1, 1)', "s2": 'Connect("sub", FALSE, FALSE)'},
                      skeys='"s:sub"', need='"s:sub"', cuts=0, cutconns="", window=2,
                      witnesses=["W_NoWill", "W_NoTakeover"]),
    # a retained message published before and after a subscription exists: replay on subscribe, live copy unflagged
    "retained": dict(scripts={"p": 'Connect("pub", TRUE, FALSE), PubR(1, "r1", 1), PubR(2, "r2", 0)', "s1": 'Connect("sub", TRUE, FALSE), Sub(1, 1)'},
                     skeys='"t:p", "t:s1"', need="", cuts=0, cutconns="", window=2, witnesses=["W_NoRetainedReplay"]),
    # a refused client, a client whose first packet is not CONNECT, and a regular one
    "refused": dict(scripts={"d": 'Connect("denied", TRUE, TRUE), Sub(1, 1)', "o": 'Ping, Connect("x", TRUE, FALSE)', "s1": 'Connect("sub", TRUE, FALSE), Sub(1, 1), Ping'},
                    skeys='"t:d", "t:o", "t:s1"', need="", cuts=0, cutconns="", window=2, witnesses=["W_NoRefusal", "W_NoOffender"]),
    # a second connection with the same client id at any moment (takeover), the first one has a will, a watcher receives it
    "takeover": dict(scripts={"s1": 'Connect("sub", FALSE, TRUE), Sub(1, 1)', "s2": 'Connect("sub", FALSE, FALSE)', "w": 'Connect("watch", TRUE, FALSE), SubW(1)'},
                     skeys='"s:sub", "t:w"', need='"t:w"', cuts=1, cutconns='"s1"', window=2,
                     witnesses=["W_NoWill", "W_NoTakeover"]),
}
BROKER_FOR = {   # property -> (quick configs, thorough configs)
    "C06": (["flow"], ["resume"]), "C07": (["release"], ["resume"]), "C08": (["resume1"], ["resume", "flow"]), "C11": (["retained"], []),
    "C12": (["takeover1"], ["takeover"]), "C13": (["takeover1"], ["takeover", "resume"]), "C14": (["takeover1"], ["release", "takeover"]),
    "C15": (["flow"], ["resume"]), "C16": (["flow"], ["resume"]), "C20": (["refused"], ["flow"]),
}


def broker_mc(run, prop):
    """BrokerMC.tla: Broker.tla closed with scripted conformant peers, cuts and reconnects; end-to-end properties as invariants."""
    wd, tier = run.wd, run.tier
    quick, thorough = BROKER_FOR.get(prop, ([], []))
    names = quick + (thorough if tier == "thorough" else [])
    states = trans = 0
    configs, wit = [], []

    def one(c, inv, props="", dev="", timeout=3000):
        conns = list(c["scripts"].keys())
        cfg = _cfg("BrokerMC.cfg", CONNS=", ".join('"%s"' % x for x in conns), SKEYS=c["skeys"], NEED=c["need"], CUTS=str(c["cuts"]), CUTCONNS=c["cutconns"],
                   WINDOW=str(c["window"]), WITHHOLD=c.get("withhold", ""), DEV=dev, INV=inv, PROPS=props, CHECKED=BROKER_CHECKED)
        if not props:
            cfg = cfg.replace("PROPERTIES \n", "")
        return lib.tlc(wd, "BrokerMC1", cfg, timeout=timeout, defs={"SCRIPTS": _scripts(c["scripts"]), "AFTER": _after(c.get("after", {}), conns)})

    for n in names:
        c = BROKER_CFGS[n]
        r = one(c, BROKER_INV, "Delivery" if c["need"] else "")
        _expect(r, "BrokerMC " + n)
        states += r.distinct; trans += r.generated
        configs.append("%s: %d states, %d transitions" % (n, r.distinct, r.generated))
        for w in c.get("witnesses", []):
            rw = one(c, w, timeout=900)
            _expect(rw, "BrokerMC %s witness %s" % (n, w), w)
            wit.append("%s: %s reachable" % (n, w[2:]))
        for dev, bad in c.get("devs", []):
            rd = one(c, BROKER_INV, dev='"%s"' % dev, timeout=900)
            if "DESIGN-VIOLATION" not in rd.out or bad not in rd.out:
                raise lib.Infra("deviation %s in %s did not trip %s:\n%s" % (dev, n, bad, rd.out[-2000:]))
            wit.append("%s: deviation %s trips %s" % (n, dev, bad))
    if names:
        run.add(states=states, transitions=trans, exhaustive=True, design_configs=configs, design_witnesses=wit)


CLIENT_INV = "FutureTruth KeepUntilAck CallbackOnce AckOnlyIfAccepted"
CLIENT_CFGS = {
    # outgoing: persistent session, QoS 1 and QoS 2 publishes, the connection cut anywhere, Close
    "out": dict(app='Call("connect", FALSE), Call("publish", Msg("p1", 1)), Call("publish", Msg("p2", 2)), Call("close", 0)', broker="", refuse="", cuts=1,
                witnesses=["W_NoCompleted", "W_NoCancelled"]),
    # outgoing across a reconnect: whatever is still recorded is resent (flagged duplicate) by the next client object
    "resume": dict(app='Call("connect", FALSE), Call("publish", Msg("p1", 2)), Call("close", 0), Call("newclient", 0), Call("connect", FALSE), Call("subscribe", 0), Call("close", 0)',
                   broker="", refuse="", cuts=1, witnesses=["W_NoResend", "W_NoCompleted"]),
    # incoming: QoS 1 and QoS 2 deliveries with the release, the connection cut anywhere
    "in": dict(app='Call("connect", FALSE), Call("publish", Msg("p1", 0)), Call("disconnect", 0)', broker='BPub(1, "b1", 1), BPub(2, "b2", 2), BRel(2)', refuse="", cuts=1,
               witnesses=["W_NoCallback"]),
    # incoming with an application callback that refuses the first / second message
    "refuse": dict(app='Call("connect", FALSE), Call("close", 0)', broker='BPub(1, "b1", 1), BPub(2, "b2", 2), BRel(2)', refuse="1, 2", cuts=0,
                   witnesses=["W_NoRefusal"]),
}
CLIENT_FOR = {"C09": (["out", "resume"], []), "C10": (["in", "refuse"], [])}


def client_mc(run, prop):
    """ClientMC.tla: Client.tla closed with an application script, a conformant scripted broker, cuts and reconnects."""
    wd, tier = run.wd, run.tier
    quick, thorough = CLIENT_FOR.get(prop, ([], []))
    states = trans = 0
    configs, wit = [], []
    race = '"ClientDieVsApiRace"'

    def one(c, inv, props="", dev=race, cuts=None, timeout=3000):
        cfg = _cfg("ClientMC.cfg", DEV=dev, REFUSE=c["refuse"], CUTS=str(c["cuts"] if cuts is None else cuts), INV=inv, PROPS=props)
        if not props:
            cfg = cfg.replace("PROPERTIES \n", "")
        return lib.tlc(wd, "ClientMC1", cfg, timeout=timeout, defs={"APP": "<<%s>>" % c["app"], "BROKER": "<<%s>>" % c["broker"]})

    for n in quick + (thorough if tier == "thorough" else []):
        c = CLIENT_CFGS[n]
        cuts = c["cuts"] + (1 if tier == "thorough" else 0)
        # the code as it is (the API-versus-die race of the known finding included): everything but NoPendingAfterEnd
        r = one(c, CLIENT_INV, "Returns", cuts=cuts)
        _expect(r, "ClientMC " + n)
        states += r.distinct; trans += r.generated
        configs.append("%s (%d cuts): %d states, %d transitions" % (n, cuts, r.distinct, r.generated))
        # without that race (the guard as an assumption) no future is left pending when the client has ended
        r2 = one(c, CLIENT_INV + " NoPendingAfterEnd", dev="", cuts=cuts)
        _expect(r2, "ClientMC %s without the race" % n)
        states += r2.distinct; trans += r2.generated
        for w in c.get("witnesses", []):
            rw = one(c, w, cuts=cuts, timeout=900)
            _expect(rw, "ClientMC %s witness %s" % (n, w), w)
            wit.append("%s: %s reachable" % (n, w[2:]))
    if prop == "C09":
        # the known finding reproduced at design level: with the race a stored future stays pending after the client ended
        rk = one(CLIENT_CFGS["out"], "NoPendingAfterEnd", timeout=900)
        _expect(rk, "ClientMC known finding", "NoPendingAfterEnd")
        wit.append("out: known finding ClientDieVsApiRace violates NoPendingAfterEnd at design level")
    run.add(states=states, transitions=trans, exhaustive=True, design_configs=configs, design_witnesses=wit)


def _cfg(name, **subst):
    t = open(os.path.join(lib.SPEC, name)).read()
    for k, v in subst.items():
        t = t.replace("@@%s@@" % k, v)
    return t


def _expect(r, what, bad=None):
    """bad=None: the run must finish clean; otherwise it must violate the invariant/property `bad`"""
    if bad is None:
        if not r.ok() or not r.finished or r.invariant:
            raise lib.Infra("design model %s does not satisfy its own properties (model defect, not a code verdict):\n%s" % (what, r.out[-2500:]))
    else:
        if r.invariant is None or (bad != "temporal" and r.invariant != bad and bad not in r.out):
            raise lib.Infra("deviation run %s did not violate %s (vacuous invariant?):\n%s" % (what, bad, r.out[-2500:]))


ALL = ("0..Total", "1..Total")
STREAM_D = [   # packets, limits, cuts, steps
    ("<<P2, P3, P2>>", "{0, 2, 3}") + ALL,
    ("<<P3, P130, P2>>", "{0, 3, 129, 130}") + ALL,
    ("<<P2, PBad, P2>>", "{0}") + ALL,
    ("<<P4, P2, P4>>", "{0, 3, 4}") + ALL,
]
STREAM_D_THOROUGH = [
    ("<<P130, P130, P3>>", "{0, 129, 130, 131}") + ALL,
    ("<<P2, P3, P4, P2, P3>>", "{0, 2, 3, 4}") + ALL,
    ("<<P3, PBad, P130>>", "{0, 3}") + ALL,
    ("<<P16K, P2>>", "{0, 16387, 16388}", "{0, 1, 3, 4, 5, 4096, 4097, 16387, 16388, 16389, 16390}", "{1, 2, 4095, 4096, 4097, 8192}"),
]
CONN_INV = "WireWhole NoDuplicates SenderOrder CloseFlushesAccepted FlushedIsOnWire FlushedSendFailsAfterClose BufferedSendFailsAfterFailedFlush ErrorClosesCarrier TimerCoversBuffer NoPacketFromPartial MutexDiscipline"
CONN_PROPS = "EveryCallReturns EventuallyFlushed ReceiveUnblocked"
BIG1 = 's = "s1" /\\ i = 1'
# senders, per sender, delay0 values, closes, feed, receives, faults, big-packet rule, sync rule
CONN_RELAXED = ("NoSendMutex", "CloseSkipsMutex")
CONN_QUICK = [
    ('"s1", "s2"', 2, "FALSE", 1, "", 0, 0, BIG1, "i = 2"),
    ('"s1"', 2, "FALSE", 1, "2", 2, 1, "FALSE", "i = 2"),
]
CONN_THOROUGH = [
    ('"s1"', 2, "FALSE, TRUE", 1, "2", 2, 1, BIG1, "i = 2"),
    ('"s1", "s2"', 2, "FALSE", 1, "2", 1, 0, BIG1, "i = 2"),
    ('"s1", "s2", "s3"', 1, "FALSE", 1, "", 0, 1, BIG1, 's = "s2"'),
    ('"s1", "s2"', 2, "TRUE", 2, "", 0, 1, "FALSE", "FALSE"),
    ('"s1", "s2"', 1, "FALSE", 2, "2", 2, 0, BIG1, "FALSE"),
]
CONN_DEVS = [   # deviation(s), the property it must violate, kind
    ('"NoSendMutex", "NoWriterMutex"', "WireWhole", "inv"),
    ('"CloseNoFlush"', "CloseFlushesAccepted", "inv"),
    ('"NoWriterMutex"', "TimerCoversBuffer", "inv"),
    ('"NoStickyError"', "BufferedSendFailsAfterFailedFlush", "inv"),
]


def conn_mc(run):
    """Conn.tla: senders / flush timer / closer / receiver / failing carrier over all interleavings (C19)."""
    wd, tier = run.wd, run.tier
    states = trans = 0
    configs = []

    def one(c, dev="", inv=CONN_INV, props=CONN_PROPS, timeout=3000):
        snd, per, d0, closes, feed, recvs, faults, big, sync = c
        cfg = _cfg("ConnMC.cfg", SENDERS=snd, PER=str(per), D0=d0, CLOSES=str(closes), RECVS=str(recvs), FAULTS=str(faults), DEV=dev, INV=inv, PROPS=props)
        if not props:
            cfg = cfg.replace("PROPERTIES \n", "")
        if not inv:
            cfg = cfg.replace("INVARIANTS \n", "")
        return lib.tlc(wd, "ConnMC", cfg, timeout=timeout, defs={"BIG": big, "SYNC": sync, "FEED": feed})

    for c in CONN_QUICK + (CONN_THOROUGH if tier == "thorough" else []):
        r = one(c)
        _expect(r, "ConnMC %s" % (c,))
        states += r.distinct; trans += r.generated
        configs.append("senders {%s} x %s sends, delay0 in {%s}, %s closes, feed <<%s>>, %s receives, %s write faults: %d states" % (c[:7] + (r.distinct,)))
    base = ('"s1", "s2"', 2, "FALSE", 1, "", 0, 0, BIG1, "i = 2")
    devs = []
    for dev, bad, kind in CONN_DEVS:
        r = one(base, dev=dev, inv=bad if kind == "inv" else "", props=bad if kind == "prop" else "", timeout=900)
        _expect(r, "ConnMC " + dev, bad)
        devs.append("%s -> %s violated" % (dev.replace('"', ""), bad))
    # the relaxed model (no sendMutex in Send and Close; mercury's writer mutex alone) keeps every property: this is what justifies accepting
    # traces that only the strict model rejects
    rb = base if tier == "thorough" else ('"s1", "s2"', 2, "FALSE", 1, "", 0, 0, "FALSE", "i = 2")
    r = one(rb, dev=", ".join('"%s"' % d for d in CONN_RELAXED), timeout=3000)
    _expect(r, "ConnMC relaxed")
    states += r.distinct; trans += r.generated
    run.add(states=states, transitions=trans, exhaustive=True, design_configs=configs, design_deviations=devs,
            design_note="the relaxed model without sendMutex (%s) keeps every property: mercury's writer mutex serialises whole packets; %d states" % ("+".join(CONN_RELAXED), r.distinct))


def stream_mc(run, prop):
    """Stream.tla: decoder over all delivery schedules (C03), BaseConn senders/closer/carrier over all interleavings (C19)."""
    wd, tier = run.wd, run.tier
    states = trans = 0
    configs = []
    if prop == "C03":
        for pk, lim, cuts, steps in STREAM_D + (STREAM_D_THOROUGH if tier == "thorough" else []):
            r = lib.tlc(wd, "StreamMC", _cfg("StreamD.cfg", DEV=""), timeout=1500,
                        defs={"PKTS": pk, "LIMITS": lim, "CUTS": cuts, "STEPS": steps})
            _expect(r, "StreamD %s" % pk)
            states += r.distinct; trans += r.generated
            configs.append("decoder %s limits %s: %d states" % (pk, lim, r.distinct))
        r = lib.tlc(wd, "StreamMC", _cfg("StreamD.cfg", DEV='"LimitAfterRead"'), timeout=600,
                    defs={"PKTS": "<<P2, P4, P2>>", "LIMITS": "{3}", "CUTS": "0..Total", "STEPS": "1..Total"})
        _expect(r, "StreamD LimitAfterRead", "LimitBeforeBuffer")
        r = lib.tlc(wd, "StreamMC", _cfg("StreamD.cfg", DEV='"EofHidesPartial"'), timeout=600,
                    defs={"PKTS": "<<P2, P4, P2>>", "LIMITS": "{0}", "CUTS": "0..Total", "STEPS": "1..Total"})
        _expect(r, "StreamD EofHidesPartial", "SameAsReference")
        run.add(states=states, transitions=trans, exhaustive=True, design_configs=configs,
                design_deviations=["LimitAfterRead -> LimitBeforeBuffer violated", "EofHidesPartial -> SameAsReference violated"])
