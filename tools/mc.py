"""Exhaustive model checking of the design-level specifications (bounded configurations)."""
import lib


def broker_mc(run, prop):
    # filled in by BrokerMC.tla (see DESIGN.md); until then only trace validation contributes states
    return
