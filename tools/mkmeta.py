#!/usr/bin/env python3
"""writes /verif/seeded/<id>/meta.json from notes.md, patch.diff and the matrix logs (seed_matrix.sh output files given as arguments)"""
import json, os, re, sys
ROOT = os.path.join(os.path.dirname(os.path.abspath(__file__)), "..", "seeded")
results = {}
for log in sys.argv[1:]:
    tier = "thorough" if "thorough" in log else "quick"
    for ln in open(log):
        m = re.match(r"(\S+) (C\d+) (NOAPPLY|rc=(\d+)) ?(.*)", ln.strip())
        if m:
            results.setdefault(m.group(1), {})[tier] = {"applies": m.group(3) != "NOAPPLY", "exit": int(m.group(4)) if m.group(4) else None,
                                                         "detail": m.group(5)[:400]}
for d in sorted(os.listdir(ROOT)):
    p = os.path.join(ROOT, d)
    if not os.path.isdir(p):
        continue
    notes = open(os.path.join(p, "notes.md")).read() if os.path.exists(os.path.join(p, "notes.md")) else ""
    title = notes.splitlines()[0].lstrip("# ").strip() if notes else d
    sec = re.search(r"##[^\n]*(needed|manifest|Trigger|trigger)[^\n]*\n(.*?)(\n## |\Z)", notes, re.S)
    needs = re.sub(r"\s+", " ", sec.group(2)).strip()[:900] if sec else ""
    files = re.findall(r"^diff --git a/(\S+)", open(os.path.join(p, "patch.diff")).read(), re.M)
    prop = re.match(r"C\d+", d).group(0)
    demo = sorted(os.listdir(os.path.join(p, "demo"))) if os.path.isdir(os.path.join(p, "demo")) else []
    r = results.get(d, {})
    caught = [t for t, x in r.items() if x.get("exit") == 1]
    meta = {
        "id": d, "property": prop, "title": title, "origin": "fresh sub-agent given only the property text and a scratch worktree of /repo",
        "files_changed": files, "needs_to_manifest": needs,
        "confirmed": {"how": "tools/confirm_seed.sh in a scratch worktree of /repo: demo passes without the change (3 runs), fails with it (3 runs), "
                             "go build ./... and the existing tests of the touched packages plus broker and client pass with it",
                      "demo": demo},
        "check_results": r,
        "detected_by": ("./check %s (%s tier)" % (prop, "/".join(sorted(caught)))) if caught else
                       ("superseded: the patch no longer applies to (or compiles against) the repaired tree - a fix: commit rewrote the code it changes; "
                        "the defect it re-introduced is the one that fix repaired and the check caught on the pinned tree"
                        if r and (not any(x.get("applies") for x in r.values()) or any(x.get("exit") == 2 and "go build" in x.get("detail", "") for x in r.values()))
                        else "not detected" if r else "not run"),
    }
    json.dump(meta, open(os.path.join(p, "meta.json"), "w"), indent=1)
    print(d, meta["detected_by"])
