"""Common machinery of the gomqtt verification framework.

 - scratch work directories under /verif/.work (removed after each run)
 - building the Go conformance harness against /repo's working tree (-tags verif)
 - running TLC (exhaustive / simulate / calculator / trace validation) and parsing its output
 - verdict protocol (VIOLATION / KNOWN-FINDING lines, exit codes) and evidence files
"""
import json, os, re, shutil, subprocess, sys, time, hashlib

VERIF = os.path.dirname(os.path.dirname(os.path.abspath(__file__)))
REPO = os.environ.get("VERIF_REPO", "/repo")
SPEC = os.path.join(VERIF, "spec")
HARNESS = os.path.join(VERIF, "harness")
WORKROOT = os.path.join(VERIF, ".work")
EVIDENCE = os.path.join(VERIF, "evidence")
REPLAYS = os.path.join(VERIF, "replays")
KNOWN = os.path.join(VERIF, "KNOWN_FINDINGS.txt")
NCPU = os.cpu_count() or 4

GOENV = dict(os.environ, GOFLAGS="-mod=mod", GOPROXY="off", GOSUMDB="off", GOTOOLCHAIN="local",
             CGO_ENABLED=os.environ.get("CGO_ENABLED", "1"))


class Infra(Exception):
    """infrastructure failure: exit 2, never a violation"""


def log(*a):
    print(*a, flush=True)


# ---------------------------------------------------------------- work dirs

def workdir(tag):
    d = os.path.join(WORKROOT, "%s-%d" % (tag, os.getpid()))
    shutil.rmtree(d, ignore_errors=True)
    os.makedirs(d)
    return d


def cleanup(d):
    if os.environ.get("VERIF_KEEP"):
        log("kept work dir", d)
        return
    shutil.rmtree(d, ignore_errors=True)
    try:
        os.rmdir(WORKROOT)
    except OSError:
        pass


# ---------------------------------------------------------------- Go harness

def build_harness(race=False):
    """(re)build the conformance driver from /repo's current working tree with hooks on."""
    os.makedirs(os.path.join(WORKROOT, "bin"), exist_ok=True)
    # one binary per process: checks may run side by side (each rebuilds from /repo's working tree)
    out = os.path.join(WORKROOT, "bin", "%s-%d" % ("drive-race" if race else "drive", os.getpid()))
    import atexit
    atexit.register(lambda p=out: os.path.exists(p) and os.remove(p))
    gosum = os.path.join(HARNESS, "go.sum")
    tmp = gosum + ".%d" % os.getpid()
    shutil.copy(os.path.join(REPO, "go.sum"), tmp)
    os.replace(tmp, gosum)
    cmd = ["go", "build", "-tags", "verif", "-o", out]
    if race:
        cmd.append("-race")
    cmd.append("./cmd/drive")
    t = time.time()
    p = subprocess.run(cmd, cwd=HARNESS, env=GOENV, capture_output=True, text=True)
    if p.returncode != 0:
        sys.stderr.write(p.stdout + p.stderr)
        raise Infra("go build of the harness failed (does /repo still compile?)")
    log("harness built%s in %.1fs" % (" (race)" if race else "", time.time() - t))
    return out


def run_drive(binary, args, timeout=600, stdin=None, env=None):
    """run the driver; returns (rc, stdout, stderr)"""
    e = dict(GOENV)
    if env:
        e.update(env)
    try:
        p = subprocess.run([binary] + args, capture_output=True, text=True, timeout=timeout, input=stdin, env=e)
    except subprocess.TimeoutExpired as ex:
        raise Infra("driver timed out after %ss: %s" % (timeout, " ".join(args)))
    return p.returncode, p.stdout, p.stderr


# ---------------------------------------------------------------- TLC

class TLCResult:
    def __init__(self, rc, out, wall):
        self.rc, self.out, self.wall = rc, out, wall
        self.generated = self.distinct = 0
        m = re.findall(r"(\d+) states generated, (\d+) distinct states found", out)
        if m:
            self.generated, self.distinct = int(m[-1][0]), int(m[-1][1])
        self.invariant = None
        m = re.search(r"Invariant (\S+) is violated", out)
        if m:
            self.invariant = m.group(1)
        m2 = re.search(r"Action property (\S+) is violated", out)
        if m2:
            self.invariant = m2.group(1)
        m3 = re.search(r"Temporal property (\S+) was violated", out)
        if m3:
            self.invariant = self.invariant or m3.group(1)
        if "Temporal properties were violated" in out:
            self.invariant = self.invariant or "temporal"
        self.finished = "Model checking completed. No error has been found." in out or \
            "Finished computing initial states" in out and "Finished in" in out and "Error:" not in out
        self.error = "Error:" in out
        self.assume_failed = "Assumption" in out and "is false" in out
        self.post_failed = "Post-condition" in out or "POSTCONDITION" in out and "violated" in out

    def ok(self):
        return self.rc == 0 and not self.error

    def lines(self, prefix):
        """payloads of PrintT(<<prefix, ...>>) lines"""
        pre = '<<"%s", ' % prefix
        res = []
        for ln in self.out.splitlines():
            if ln.startswith(pre) and ln.endswith(">>"):
                res.append(ln[len(pre):-2])
        return res


def tla_unquote(s):
    """TLC prints strings as "...", with \\" and \\\\ escapes"""
    s = s.strip()
    if s.startswith('"') and s.endswith('"'):
        s = s[1:-1]
    return s.replace('\\"', '"').replace("\\\\", "\\")


def tlc_nocopy(wd, module, cfg, **kw):
    """like tlc() but uses the spec files already present in wd (after manual patching)"""
    return tlc(wd, module, cfg, nocopy=True, **kw)


def tlc(wd, module, cfg, workers=None, timeout=600, extra=None, deque=False, files=None, heap=None,
        defs=None, nocopy=False):
    """Run TLC on spec/<module>.tla with config text or file `cfg` inside work dir `wd`.
    All spec/*.tla are copied next to it so EXTENDS works. Returns TLCResult.
    Raises Infra on timeout / JVM failure."""
    for f in os.listdir(SPEC):
        if f.endswith(".tla") and not nocopy:
            shutil.copy(os.path.join(SPEC, f), wd)
    for f in files or []:
        shutil.copy(f, wd)
    if cfg and "\n" not in cfg and os.path.isfile(cfg):
        cfgpath = os.path.join(wd, os.path.basename(cfg))
        shutil.copy(cfg, cfgpath)
    elif cfg and "\n" not in cfg and os.path.isfile(os.path.join(SPEC, cfg)):
        cfgpath = os.path.join(wd, os.path.basename(cfg))
        shutil.copy(os.path.join(SPEC, cfg), cfgpath)
    else:
        cfgpath = os.path.join(wd, module + "_%d.cfg" % (int(time.time() * 1000) % 100000))
        open(cfgpath, "w").write(cfg)
    if defs:
        # textual substitution of @@NAME@@ placeholders in the copied module (paths, constants)
        for fn in os.listdir(wd):
            if not fn.endswith(".tla"):
                continue
            p = os.path.join(wd, fn)
            t = open(p).read()
            t2 = t
            for k, v in defs.items():
                t2 = t2.replace("@@%s@@" % k, str(v))
            if t2 != t:
                open(p, "w").write(t2)
    if not cfg.strip():
        workers = 1     # constant evaluation (no behaviour): more workers only slow the JVM down (measured 16 s vs 91 s)
    meta = os.path.join(wd, "meta-%d" % (int(time.time() * 1000000) % 10000000))
    cmd = ["java", "-XX:+UseParallelGC", "-Xss256m"]
    if heap:
        cmd.append("-Xmx" + heap)
    if deque:
        cmd.append("-Dtlc2.tool.queue.IStateQueue=StateDeque")
    cmd += ["-cp", "/opt/veriftools/tla/tla2tools.jar:/opt/veriftools/tla/CommunityModules-deps.jar", "tlc2.TLC",
            "-metadir", meta, "-config", cfgpath, "-workers", str(workers or NCPU), "-noGenerateSpecTE"]
    cmd += extra or []
    cmd.append(module + ".tla")
    t = time.time()
    try:
        p = subprocess.run(cmd, cwd=wd, capture_output=True, text=True, timeout=timeout)
    except subprocess.TimeoutExpired:
        subprocess.run(["pkill", "-f", "tlc2.TL[C].*" + re.escape(wd)], capture_output=True)
        raise Infra("TLC timed out after %ss on %s" % (timeout, module))
    shutil.rmtree(meta, ignore_errors=True)
    r = TLCResult(p.returncode, p.stdout + p.stderr, time.time() - t)
    if "java.lang.OutOfMemoryError" in r.out or "StackOverflowError" in r.out:
        raise Infra("TLC JVM failure on %s:\n%s" % (module, r.out[-2000:]))
    if "Parsing or semantic analysis failed" in r.out or "Semantic errors" in r.out or \
            "Error: TLC threw an unexpected exception" in r.out and "evaluat" not in r.out:
        raise Infra("TLC could not process %s:\n%s" % (module, r.out[-4000:]))
    return r


# ---------------------------------------------------------------- known findings

def known_findings(prop):
    """entries of KNOWN_FINDINGS.txt for a property: list of dicts {key, text}; 'fixed:' lines suppress nothing"""
    res = []
    if not os.path.exists(KNOWN):
        return res
    for ln in open(KNOWN):
        ln = ln.strip()
        if not ln or ln.startswith("#") or ln.startswith("fixed:"):
            continue
        m = re.match(r"known:\s+property=(\S+)\s+key=(\S+)\s+(.*)", ln)
        if m and m.group(1) == prop:
            res.append({"key": m.group(2), "text": m.group(3)})
    return res


# ---------------------------------------------------------------- verdicts & evidence

class Run:
    """one invocation of one check"""

    def __init__(self, prop, tier, seed, level):
        self.prop, self.tier, self.seed, self.level = prop, tier, seed, level
        self.t0 = time.time()
        self.cov = {}
        self.assumptions = []
        self.violations = []     # (what, replay_path)
        self.known_seen = []     # (key, text)
        self.notes = []

    def add(self, **kw):
        for k, v in kw.items():
            if isinstance(v, int) and isinstance(self.cov.get(k), int) and k not in ("exhaustive",):
                self.cov[k] += v
            elif isinstance(v, list) and isinstance(self.cov.get(k), list):
                self.cov[k] = (self.cov[k] + v)[:12]
            else:
                self.cov[k] = v

    def note(self, s):
        self.notes.append(s)
        log("note:", s)

    def violation(self, what, files=None, text=None):
        """record a violation; writes a replay directory"""
        n = len(self.violations) + 1
        d = os.path.join(REPLAYS, "%s-%s-%d-%d" % (self.prop, self.tier, self.seed, n))
        shutil.rmtree(d, ignore_errors=True)
        os.makedirs(d)
        for name, content in (files or {}).items():
            open(os.path.join(d, name), "w").write(content if isinstance(content, str) else json.dumps(content, indent=1))
        open(os.path.join(d, "README"), "w").write(
            "property %s\n%s\n\nre-run: cd /verif && VERIF_SEED=%d ./check %s --tier %s\nreplay: ./check %s --replay %s\n%s\n"
            % (self.prop, what, self.seed, self.prop, self.tier, self.prop, d, text or ""))
        self.violations.append((what, d))
        if len(self.violations) <= 5:
            log("  violation: %s" % what)

    def known(self, key, text):
        if key not in [k for k, _ in self.known_seen]:
            self.known_seen.append((key, text))

    def finish(self):
        wall = time.time() - self.t0
        cov = dict(self.cov)
        cov.setdefault("samples", ["(none)"])
        if self.notes:
            cov["notes"] = self.notes[:20]
        if self.known_seen:
            cov["known_findings_seen"] = [k for k, _ in self.known_seen]
        ev = {"property_id": self.prop, "tier": self.tier, "seed": self.seed, "level": self.level,
              "coverage": cov, "assumptions": self.assumptions, "wall_s": round(wall, 2),
              "violations": len(self.violations)}
        os.makedirs(EVIDENCE, exist_ok=True)
        json.dump(ev, open(os.path.join(EVIDENCE, self.prop + ".json"), "w"), indent=1, default=str)
        for key, text in self.known_seen:
            log("KNOWN-FINDING: property=%s %s" % (self.prop, text))
        if self.violations:
            for what, d in self.violations[:1]:
                log("VIOLATION property=%s replay=%s" % (self.prop, d))
            log("(%d violation(s); first: %s)" % (len(self.violations), self.violations[0][0]))
            return 1
        log("OK property=%s tier=%s seed=%d wall=%.1fs" % (self.prop, self.tier, self.seed, wall))
        return 0


def digest(obj):
    return hashlib.sha1(json.dumps(obj, sort_keys=True, default=str).encode()).hexdigest()[:16]
