#!/bin/sh
# usage: tools/try_seed.sh <Cxx> <patch.diff> [tier]   -- applies a seeded change to /repo, runs the check, reverts
set -u
P=$1; PATCH=$2; TIER=${3:-quick}
if ! git -C /repo diff --quiet; then echo "/repo dirty"; exit 3; fi
git -C /repo apply "$PATCH" || { echo "patch does not apply"; exit 3; }
cd /verif && ./check "$P" --tier "$TIER" 2>&1 | grep -v '^<<' | tail -${LINES_OUT:-6}
rc=$?
git -C /repo checkout -- . && git -C /repo clean -fdq
exit $rc
