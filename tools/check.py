#!/usr/bin/env python3
"""./check <Cxx> [--tier quick|thorough] [--seed N] [--replay DIR] [--keep]
   ./check --setup        build the harness (MANIFEST.setup_cmd)
   ./check --selftest [Cxx]

Exit codes: 0 property held on everything explored; 1 + 'VIOLATION property=<id> replay=<path>';
2 infrastructure failure (never a violation)."""
import importlib, os, sys, traceback

sys.path.insert(0, os.path.dirname(os.path.abspath(__file__)))
import lib


def main(argv):
    if not argv or argv[0] in ("-h", "--help"):
        print(__doc__)
        return 2
    tier = os.environ.get("VERIF_TIER", "quick")
    seed = int(os.environ.get("VERIF_SEED", "1") or 1)
    replay = None
    selftest = False
    props = []
    i = 0
    while i < len(argv):
        a = argv[i]
        if a == "--tier":
            tier = argv[i + 1]; i += 1
        elif a == "--seed":
            seed = int(argv[i + 1]); i += 1
        elif a == "--replay":
            replay = argv[i + 1]; i += 1
        elif a == "--keep":
            os.environ["VERIF_KEEP"] = "1"
        elif a == "--setup":
            try:
                lib.build_harness()
                lib.build_harness(race=True)
            except lib.Infra as e:
                print("setup failed:", e)
                return 2
            return 0
        elif a == "--selftest":
            selftest = True
        else:
            props.append(a)
        i += 1
    if tier not in ("quick", "thorough"):
        tier = "quick"
    rc = 0
    for p in props:
        try:
            mod = importlib.import_module("props." + p.lower())
        except ImportError as e:
            print("no check for", p, e)
            return 2
        run = lib.Run(p.upper(), tier, seed, mod.LEVEL)
        run.wd = lib.workdir(p.upper())
        try:
            if selftest:
                mod.selftest(run)
            elif replay:
                mod.replay(run, replay)
            else:
                mod.check(run)
            r = run.finish()
        except lib.Infra as e:
            print("INFRASTRUCTURE FAILURE (exit 2, not a violation):", e)
            if run.violations:
                # a real-code disagreement was already established before the later stage broke
                run.note("a later stage failed for infrastructure reasons: %s" % str(e)[:300])
                r = run.finish()
            else:
                return 2
        except Exception:
            traceback.print_exc()
            print("INFRASTRUCTURE FAILURE (exit 2, not a violation): internal error in the checker")
            return 2
        finally:
            lib.cleanup(run.wd)
        rc = max(rc, r)
    return rc


if __name__ == "__main__":
    sys.exit(main(sys.argv[1:]))
