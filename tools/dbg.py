#!/usr/bin/env python3
"""debug helper: tools/dbg.py <family> <scenario id> [repeat] [tier] - drives one scenario repeatedly, validates, prints rejected traces"""
import sys, json, os
sys.path.insert(0, os.path.dirname(os.path.abspath(__file__)))
import lib, brokerlib as B, brokerfam as F, clientfam as CF
from props import c06

fam, sid = sys.argv[1], int(sys.argv[2])
rep = int(sys.argv[3]) if len(sys.argv) > 3 else 20
tier = sys.argv[4] if len(sys.argv) > 4 else "quick"
seed = int(os.environ.get("VERIF_SEED", "1"))
kind = "broker"
if fam == "service":
    kind = "service"
    sc = CF.service(seed, tier)
elif fam in ("outgoing", "incoming"):
    kind = "client"
    sc = getattr(CF, fam)(seed, tier)
else:
    sc = c06.scenarios(seed, tier) if fam == "deliver" else getattr(F, fam)(seed, tier)
base = [s for s in sc if s["id"] == sid][0]
scripts = []
for i in range(rep):
    s = json.loads(json.dumps(base)); s["id"] = 90000 + i; scripts.append(s)
run = lib.Run("DBG", "quick", 1, "model_checking"); run.wd = lib.workdir("DBG")
tfile, crashes = B.run_scripts(run, scripts, "dbg", kind=kind)
res, events, r = B.validate(run, tfile, "dbg", kind=kind)
print(json.dumps(base)[:3000])
print("crashes", crashes)
bad = [tr for tr, x in res.items() if not x["ok"]]
print("rejected", len(bad), "of", rep)
for tr in bad[:1]:
    x = res[tr]
    print("REJECTED at", x["pos"], x["guards"], json.dumps(x["event"])[:300])
    evs = [(i, e) for i, e in events.items() if e["tr"] == tr]
    for i, e in evs:
        if i > x["pos"] + 3: break
        d = {k: v for k, v in e.items() if k not in ("tr", "seq", "ev")}
        print(i, e["ev"], json.dumps(d, separators=(",", ":"))[:190])
lib.cleanup(run.wd)
