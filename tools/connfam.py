"""Scenario family for C19: concurrent use of one BaseConn over the scripted carrier (conn-conc driver)."""
import random


def conn(seed, tier):
    rng = random.Random(seed * 7919 + 19)
    out = []
    nid = [0]

    def add(family, **kw):
        nid[0] += 1
        s = dict(id=nid[0], family=family, senders=2, persender=2, delay_ms=0, close_at=0, sizes=[0], syncmod=0, feed=0)
        s.update(kw)
        out.append(s)

    # 1. plain concurrency: senders x sends x flush delay x sync pattern x sizes (small, around the bufio size, several buffers)
    sizes = [[0], [0, 100], [0, 4000, 90], [5000, 0, 20], [0, 9000], [4086, 4087, 4088], [30, 4070]]
    for snd in (1, 2, 3, 5, 8, 16):
        for delay in (0, 1, 5, 20, 50):
            add("plain", senders=snd, persender=rng.choice([1, 2, 3, 4]) if snd < 8 else rng.choice([1, 2]), delay_ms=delay,
                syncmod=rng.choice([0, 1, 2, 3]), sizes=rng.choice(sizes if snd < 8 else sizes[:3]), feed=rng.choice([0, 1, 3]),
                rclose=rng.random() < 0.3)
    # 2. close from a third goroutine at arbitrary moments
    for k in range(10 if tier == "quick" else 40):
        snd = rng.choice([2, 3, 4, 6])
        per = rng.choice([2, 3, 4])
        add("close", senders=snd, persender=per, delay_ms=rng.choice([0, 2, 10, 50]), close_at=rng.randint(1, snd * per), syncmod=rng.choice([0, 2, 3]),
            sizes=rng.choice(sizes[:4]), feed=rng.choice([0, 2]), wdelay_us=rng.choice([0, 0, 200]))
    # 3. carrier failures at every kind of call
    for k in range(1, 7):
        add("failwrite", senders=3, persender=3, delay_ms=rng.choice([0, 3, 20]), failwrite=k, partial=rng.choice([0, 0, 3, 7]), syncmod=rng.choice([0, 2, 3]),
            sizes=rng.choice(sizes[:3]), feed=1)
    for k in range(1, 4):
        add("failread", senders=2, persender=3, delay_ms=rng.choice([0, 5, 50]), failread=k, syncmod=rng.choice([0, 2]), feed=3, sizes=[0, 60])
        add("failclose", senders=2, persender=2, delay_ms=rng.choice([0, 5]), failclose=k, syncmod=2, feed=1)
        add("faildeadline", senders=2, persender=2, delay_ms=5, faildeadline=k, syncmod=2, feed=3)
    # 4. the flush at Close fails (buffered sends, long delay, the first carrier write is the one Close makes)
    for snd in (1, 2, 4):
        add("closeflushfail", senders=snd, persender=2, delay_ms=200, failwrite=1, partial=rng.choice([0, 4]), feed=rng.choice([0, 1]))
        add("closeflush", senders=snd, persender=3, delay_ms=200, feed=1, sizes=[0, 50])
    # 5. read timeout, peer end of stream
    for t in (3, 10):
        add("timeout", senders=2, persender=2, delay_ms=rng.choice([0, 5]), timeout_ms=t, feed=rng.choice([0, 2]), close_at=0, wdelay_us=3000, syncmod=1)
    add("eof", senders=2, persender=3, delay_ms=5, feed=2, rclose=True, syncmod=3)
    add("eof", senders=4, persender=2, delay_ms=50, feed=0, rclose=True)
    # 6. back pressure: a write blocks until the carrier is closed, while the receiver meets an error / the closer closes
    for k in (1, 2, 3):
        add("blocked", senders=3, persender=2, delay_ms=0, blockwrite=k, feed=1, rclose=True, sizes=[0, 40])
        add("blocked", senders=2, persender=2, delay_ms=2, blockwrite=k, failread=2, feed=2, syncmod=2)
        add("blocked", senders=2, persender=2, delay_ms=0, blockwrite=k, timeout_ms=5, feed=0)
    # 6b. duplex: large packets (handed to the carrier without copying) written slowly while the connection receives packets at the
    #     same time - buffers shared between the sending and the receiving side must not be reused too early
    for k in range(6 if tier == "quick" else 24):
        add("duplex", senders=rng.choice([1, 2, 3]), persender=rng.choice([2, 3]), delay_ms=rng.choice([0, 1]), sizes=rng.choice([[9000, 5000], [5000], [9000, 0, 6000]]),
            syncmod=rng.choice([0, 1, 2]), feed=1, feedloop=rng.choice([8, 14]), wdelay_us=rng.choice([300, 600, 1000]), rclose=rng.random() < 0.5)
    # 7. the same over a real TCP connection on loopback (logged net.Conn under transport.NetConn): concurrency, close at arbitrary
    #    moments, peer end-of-stream, injected failures, read timeout
    for k in range(12 if tier == "quick" else 60):
        snd = rng.choice([1, 2, 3, 5, 8])
        per = rng.choice([1, 2, 3])
        add("tcp", carrier="tcp", senders=snd, persender=per, delay_ms=rng.choice([0, 1, 5, 20]), close_at=rng.choice([0, 0, rng.randint(1, snd * per)]),
            syncmod=rng.choice([0, 1, 2, 3]), sizes=rng.choice(sizes[:5]), feed=rng.choice([0, 1, 3]), rclose=rng.random() < 0.3,
            failwrite=rng.choice([0, 0, 0, 2, 3]), partial=rng.choice([0, 3]), failread=rng.choice([0, 0, 0, 2]), failclose=rng.choice([0, 0, 0, 1]),
            timeout_ms=rng.choice([0, 0, 0, 5]))
    if tier == "thorough":
        for k in range(90):
            snd = rng.choice([1, 2, 3, 4, 6, 9, 12, 16])
            add("random", senders=snd, persender=rng.choice([1, 2, 3]) if snd > 6 else rng.choice([1, 2, 3, 4, 5]), delay_ms=rng.choice([0, 1, 3, 8, 20, 50]),
                close_at=rng.choice([0, 0, rng.randint(1, snd)]), syncmod=rng.choice([0, 1, 2, 3, 5]), sizes=rng.choice(sizes[:5]),
                feed=rng.choice([0, 1, 2, 4]), rclose=rng.random() < 0.25, failwrite=rng.choice([0, 0, 0, 1, 2, 3, 5]), partial=rng.choice([0, 2, 5]),
                failread=rng.choice([0, 0, 0, 1, 2]), failclose=rng.choice([0, 0, 0, 1]), faildeadline=rng.choice([0, 0, 0, 1, 2]),
                timeout_ms=rng.choice([0, 0, 0, 4]), wdelay_us=rng.choice([0, 0, 100, 1000]), blockwrite=rng.choice([0, 0, 0, 0, 1, 2]))
            # a write blocked by back pressure is released only when the carrier is closed, which Close() cannot do (it waits for the send
            # mutex the blocked sender holds): such a scenario needs a receive error that is certain to come (the peer's end of stream) to end
            last = out[-1]
            if last["blockwrite"] and not last.get("rclose"):
                last["blockwrite"] = 0
    return out
