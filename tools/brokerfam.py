"""Scenario families for the broker properties (all validated against Broker.tla by brokerlib.check_family)."""
from brokerlib import Gen, TOPICS, FILTERS, msg


def faults(kmax, step=1):
    for k in range(1, kmax + 1, step):
        for when in ("before", "after"):
            yield {"op": k, "when": when}


# ---------------------------------------------------------------- C07: inbound QoS 1/2 handshakes under connection failures

def inbound(seed, tier):
    g = Gen("inbound", seed, 7000)
    rng = g.rng
    bases = []
    # publisher scripts over {PUBLISH(id,dup), PUBREL(id), loss+resume}, 1-2 concurrent ids
    bases.append([Gen.pub("P", "a", 2, "P#1")])
    bases.append([Gen.pub("P", "a", 1, "P#1")])
    bases.append([Gen.pub("P", "a", 2, "P#1"), Gen.pub("P", "a", 1, "P#2")])
    bases.append([Gen.pub("P", "a", 2, "P#1"), Gen.pub("P", "b", 2, "P#2")])
    bases.append([Gen.pub("P", "a", 1, "P#1"), Gen.pub("P", "a", 2, "P#2"), Gen.pub("P", "a", 0, "P#3")])
    kmax = 16 if tier == "thorough" else 12
    modes = ["sync", "late"] if tier == "quick" else ["sync", "late", "late"]
    for bi, base in enumerate(bases):
        for f in faults(kmax):
            for am in modes:
                if tier == "quick" and (f["op"] + bi + (am == "late")) % 2 == 1 and f["op"] > 8:
                    continue
                pre = [Gen.open("S", clean=False), Gen.sub("S", ("#", 2))]
                steps = pre + [Gen.open("P", clean=False, fault=f)] + base + [
                    Gen.open("P", clean=False, resend=True),         # resume and retransmit what is still unacknowledged
                    Gen.do("wait", "P", ms=2)]
                cfg = dict(window=4, queue=20, ackmode=am, ackdelay_ms=3 if am == "late" else 0)
                g.add(steps, **cfg)
    # concurrent handshakes, pipelined without waiting, then a second failure during the resend phase
    for f1 in faults(8, 2):
        for f2 in faults(6, 2):
            g.add([Gen.open("S", clean=False), Gen.sub("S", ("#", 2)), Gen.open("P", clean=False, fault=f1),
                   Gen.pub("P", "a", 2, "P#1"), Gen.pub("P", "a", 2, "P#2"),
                   Gen.open("P", clean=False, resend=True, fault=f2), Gen.open("P", clean=False, resend=True)], window=4, queue=20)
    # never acknowledging backend: no PUBACK/PUBCOMP may ever be sent
    for q in (1, 2):
        g.add([Gen.open("S", clean=False), Gen.sub("S", ("#", 2)), Gen.open("P", clean=False), Gen.pub("P", "a", q, "P#1"),
               Gen.pub("P", "a", q, "P#2")], ackmode="never", window=4)
    # PUBREL for ids the broker does not know (also after the handshake completed): each must be answered
    g.add([Gen.open("P", clean=False), Gen.do("pubrel", "P", id=9), Gen.pub("P", "a", 2, "P#1"), Gen.do("pubrel", "P", id=1),
           Gen.do("pubrel", "P", id=77), Gen.do("ping", "P")], window=4)
    # duplicates of PUBLISH before the PUBREL, repeated PUBREL
    g.add([Gen.open("S", clean=False), Gen.sub("S", ("#", 2)), Gen.open("P", clean=False), Gen.do("ackmode", "P", mode="manual"),
           Gen.pub("P", "a", 2, "P#1", id=5), Gen.pub("P", "a", 2, "P#1", id=5, dup=True), Gen.do("pubrel", "P", id=5), Gen.do("pubrel", "P", id=5)], window=4)
    # a publisher that retransmits a QoS 2 PUBLISH (dup) the broker has never seen: must be recorded before PUBREC
    g.add([Gen.open("S", clean=False), Gen.sub("S", ("#", 2)), Gen.open("P", clean=False), Gen.pub("P", "a", 2, "P#1", id=3, dup=True),
           Gen.pub("P", "b", 1, "P#2", id=4, dup=True)], window=4)
    # backend failure while handing over a released message, then resume + retransmitted PUBREL
    for n in (1, 2, 3):
        g.add([Gen.open("S", clean=False), Gen.sub("S", ("#", 2)), Gen.open("P", clean=False), Gen.pub("P", "a", 2, "P#1"), Gen.pub("P", "a", 1, "P#2"),
               Gen.open("P", clean=False, resend=True)], window=4, fail={"pub": n})
    return g.scripts


# ---------------------------------------------------------------- C08 / C15 / C16: persistent subscriber, window, resume

def resume(seed, tier, family="resume"):
    g = Gen(family, seed, 8000)
    rng = g.rng
    kmax = 22 if tier == "thorough" else 16
    for window in ((1, 2, 3) if tier == "thorough" else (1, 2)):
        for qos_mix in ([1, 1, 1], [2, 2, 2], [1, 2, 0, 1], [2, 1, 2, 1]):
            nmsg = min(len(qos_mix), window + 2)
            pubs = [Gen.pub("P", "a", qos_mix[i], "P#%d" % (i + 1)) for i in range(nmsg)]
            for f in faults(kmax, 1 if tier == "thorough" else 2):
                for manual in (False, True):
                    steps = [Gen.open("S", clean=False, fault=None), Gen.sub("S", ("a", 2)), Gen.do("close", "S"),
                             Gen.open("P")] + pubs[:1] + [Gen.open("S", clean=False, fault=f)]
                    if manual:
                        steps.append(Gen.do("ackmode", "S", mode="manual"))
                    steps += pubs[1:]
                    if manual:
                        steps += [Gen.do("ack", "S", n=1)]
                    # reconnect (possibly failing again during the resend phase), then acknowledge everything
                    f2 = rng.choice([None, None, {"op": rng.randint(2, 5), "when": rng.choice(["before", "after"])}])
                    steps += [Gen.open("S", clean=False, fault=f2)]
                    if f2:
                        steps += [Gen.open("S", clean=False)]
                    steps += [Gen.do("ack", "S", n=0)]
                    g.add(steps, window=window, queue=10)
    # offline queueing up to capacity, clean session discards everything, session-present flag
    for cap in (2, 5):
        for n in (1, cap, cap + 2):
            g.add([Gen.open("S", clean=False), Gen.sub("S", ("a", 1), ("b", 2)), Gen.do("close", "S"), Gen.open("P")] +
                  [Gen.pub("P", rng.choice(["a", "b"]), rng.choice([1, 2]), "P#%d" % (i + 1)) for i in range(n)] +
                  [Gen.pub("P", "a", 0, "P#z"), Gen.open("S", clean=False), Gen.do("close", "S"),
                   Gen.open("S", clean=True), Gen.do("close", "S"), Gen.open("S", clean=False)], window=3, queue=cap)
    # messages published while the subscriber's connection is closing (Terminate held): nothing with room in the queue may be lost
    for n in (3, 8):
        g.add([Gen.open("S", clean=False), Gen.sub("S", ("a", 1)), Gen.open("P"), Gen.do("close", "S", )] +
              [Gen.pub("P", "a", 1, "P#%d" % (i + 1)) for i in range(n)] + [Gen.do("wait", "P", ms=40), Gen.open("S", clean=False)],
              window=10, queue=50, holdterm_ms=25, mode="step")
    # a subscriber that was quiet for longer than the token timeout and then gets a burst longer than its window, acknowledging promptly:
    # delivery keeps flowing (a token timeout is legitimate only after the window has been exhausted for that long)
    for window in (1, 2):
        g.add([Gen.open("S", clean=False), Gen.sub("S", ("a", 1)), Gen.open("P"), Gen.pub("P", "a", 1, "P#1"), Gen.do("wait", "P", ms=650)] +
              [Gen.pub("P", "a", 1, "P#%d" % (i + 2)) for i in range(window + 3)] + [Gen.do("wait", "P", ms=30)], window=window, queue=50, token_ms=400)
    # long streams: 1..20 x window messages of mixed QoS, acknowledgement patterns immediate / batched / out of order / reconnect in between
    nstream = 24 if tier == "thorough" else 8
    for k in range(nstream):
        window = rng.choice([1, 2, 3, 5, 10])
        n = window * rng.randint(1, 6 if tier == "quick" else 20)
        n = min(n, 60)
        steps = [Gen.open("S", clean=False), Gen.sub("S", ("a", 2)), Gen.open("P")]
        pattern = rng.choice(["auto", "batched", "last", "reconnect"])
        if pattern != "auto":
            steps.append(Gen.do("ackmode", "S", mode="manual"))
        for i in range(n):
            steps.append(Gen.pub("P", "a", rng.choice([0, 1, 1, 2]), "P#%d" % (i + 1)))
            if pattern == "batched" and i % 3 == 2:
                steps.append(Gen.do("ack", "S", n=rng.randint(1, 4)))
            if pattern == "last" and i % 2 == 1:
                steps.append(Gen.do("ack", "S", n=1, mode="last"))
            if pattern == "reconnect" and i % 5 == 4:
                steps += [Gen.do("ack", "S", n=1), Gen.do("cut", "S"), Gen.open("S", clean=False), Gen.do("ackmode", "S", mode="manual")]
        steps.append(Gen.do("ack", "S", n=0))
        steps.append(Gen.do("ack", "S", n=0))
        g.add(steps, window=window, queue=100)
    return g.scripts


# ---------------------------------------------------------------- C15: several publishers / subscribers, order per publisher

def order(seed, tier):
    g = Gen("order", seed, 15000)
    rng = g.rng
    n = 40 if tier == "thorough" else 10
    for k in range(n):
        npub, nsub = rng.randint(1, 4), rng.randint(1, 3)
        if k % 2:
            # run concurrently: every placement of the per-session fan-out steps of publishes that overlap in time is explored by the
            # validation, which grows quickly with the number of publishers and sessions - keep both small here
            npub, nsub = min(npub, 2), min(nsub, 2)
        steps = []
        for s in range(nsub):
            steps += [Gen.open("S%d" % s, clean=False), Gen.sub("S%d" % s, ("t/#", rng.randint(0, 2)), ("t/x", rng.randint(0, 2)))]
            if rng.random() < 0.4:
                steps.append(Gen.do("ackmode", "S%d" % s, mode="manual"))
        for p in range(npub):
            steps.append(Gen.open("P%d" % p))
        for i in range(rng.randint(3, 10)):
            for p in range(npub):
                steps.append(Gen.pub("P%d" % p, rng.choice(["t/x", "t/y"]), rng.randint(0, 2), "P%d#%d" % (p, i + 1)))
            if rng.random() < 0.3:
                s = "S%d" % rng.randrange(nsub)
                steps += [Gen.do("cut", s), Gen.open(s, clean=False)]
        for s in range(nsub):
            steps += [Gen.do("ackmode", "S%d" % s, mode="auto"), Gen.do("ack", "S%d" % s, n=0)]
        g.add(steps, mode="concurrent" if k % 2 else "step", window=rng.choice([1, 2, 3, 10]), queue=200)
    # directed: several messages in flight, SOME of them acknowledged (oldest / youngest / two), connection cut, session resumed:
    # the rest is retransmitted in the order of the original transmission
    for window in (3, 5):
        for qmix in ([1, 1, 1, 1, 1], [2, 1, 2, 1, 2], [1, 2, 2, 1, 1]):
            for ack in ({"n": 1}, {"n": 1, "mode": "last"}, {"n": 2}):
                nm = window
                steps = [Gen.open("S", clean=False), Gen.sub("S", ("a", 2)), Gen.do("ackmode", "S", mode="manual"), Gen.open("P")]
                steps += [Gen.pub("P", "a", qmix[i], "P#%d" % (i + 1)) for i in range(nm)]
                steps += [Gen.do("ack", "S", **ack), Gen.do("cut", "S"), Gen.open("S", clean=False), Gen.do("ack", "S", n=0), Gen.do("ack", "S", n=0)]
                g.add(steps, window=window, queue=50)
    # directed: QoS 0 messages published while the subscriber is offline and after it came back, with its dequeuer held up by an
    # unacknowledged QoS 1 message (window 1): whatever the broker keeps must not be overtaken by later messages
    for rep in range(6 if tier == "quick" else 16):
        steps = [Gen.open("S", clean=False), Gen.sub("S", ("a", 1)), Gen.do("ackmode", "S", mode="manual"), Gen.open("P"),
                 Gen.pub("P", "a", 1, "P#1"), Gen.do("cut", "S"), Gen.pub("P", "a", 0, "P#2"), Gen.pub("P", "a", 0, "P#3"),
                 Gen.open("S", clean=False), Gen.do("ackmode", "S", mode="manual"),
                 Gen.pub("P", "a", 0, "P#4"), Gen.pub("P", "a", 0, "P#5"), Gen.pub("P", "a", 1, "P#6"),
                 Gen.do("ack", "S", n=0), Gen.do("ack", "S", n=0), Gen.do("ack", "S", n=0)]
        g.add(steps, window=1, queue=50)
    return g.scripts


# ---------------------------------------------------------------- C11: retained messages

def retained(seed, tier):
    g = Gen("retained", seed, 11000)
    rng = g.rng
    n = 150 if tier == "thorough" else 40
    for k in range(n):
        steps = [Gen.open("P"), Gen.open("Q")]
        cnt = 0
        subs = []
        for j in range(rng.randint(3, 9)):
            r = rng.random()
            if r < 0.55:
                cnt += 1
                p = rng.choice(["P", "Q"])
                steps.append(Gen.pub(p, rng.choice(TOPICS), rng.randint(0, 2), "%s#%d" % (p, cnt), ret=rng.random() < 0.75, empty=rng.random() < 0.2))
            elif r < 0.9:
                s = "S%d" % rng.randint(1, 2)
                if s not in subs:
                    subs.append(s)
                    steps.append(Gen.open(s, clean=rng.random() < 0.5))
                steps.append(Gen.sub(s, *[(f, rng.randint(0, 2)) for f in rng.sample(FILTERS, rng.randint(1, 3))]))
            else:
                if subs:
                    s = rng.choice(subs)
                    steps += [Gen.do("close", s), Gen.open(s, clean=False)]
        g.add(steps, window=10, queue=100)
    # every filter of the bounded filter set against a fixed retained population, all QoS combinations
    for f in FILTERS:
        for sq in (0, 1, 2):
            g.add([Gen.open("P"), Gen.pub("P", "a", 2, "r1", ret=True), Gen.pub("P", "a/b", 1, "r2", ret=True), Gen.pub("P", "b", 0, "r3", ret=True),
                   Gen.pub("P", "a/b/c", 2, "r4", ret=True), Gen.pub("P", "b", 1, "r5", ret=True), Gen.pub("P", "a/b", 1, "", ret=True, empty=True),
                   Gen.pub("P", "c", 1, "n1", ret=False), Gen.open("S", clean=False), Gen.sub("S", (f, sq)), Gen.sub("S", (f, 2 - sq), ("#", sq))], window=10)
    # a retained will counts as a publish; the live copy of a retained publish has the flag cleared
    for wq in (0, 1, 2):
        g.add([Gen.open("W", will=msg("a/b", wq, "will", ret=True)), Gen.open("S"), Gen.sub("S", ("a/#", 2)), Gen.do("cut", "W"),
               Gen.open("T"), Gen.sub("T", ("a/+", 1)), Gen.open("P"), Gen.pub("P", "a/b", 1, "", ret=True, empty=True), Gen.open("U"), Gen.sub("U", ("#", 2))], window=10)
    # clearing a child topic must not disturb the retained message of its parent (and vice versa)
    for first, second in (("a", "a/b"), ("a/b", "a"), ("a/b", "a/b/c")):
        g.add([Gen.open("P"), Gen.pub("P", first, 1, "r1", ret=True), Gen.pub("P", second, 1, "r2", ret=True), Gen.pub("P", second, 1, "", ret=True, empty=True),
               Gen.open("S"), Gen.sub("S", ("#", 1)), Gen.pub("P", first, 1, "", ret=True, empty=True), Gen.open("T"), Gen.sub("T", ("#", 1))], window=10)
    # the same retained message replayed to consecutive subscribers with different granted QoS
    g.add([Gen.open("P"), Gen.pub("P", "a", 2, "r1", ret=True)] +
          sum([[Gen.open("S%d" % i), Gen.sub("S%d" % i, ("a", q))] for i, q in enumerate([2, 0, 2, 1, 2])], []), window=10)
    return g.scripts


# ---------------------------------------------------------------- C12: wills

def wills(seed, tier):
    g = Gen("will", seed, 12000)
    rng = g.rng
    causes = ["disconnect", "close", "cut", "protocol", "second_connect", "keepalive", "takeover", "backendclose", "fault"]
    states = ["idle", "mid_q1_in", "mid_q2_in", "mid_q2_out", "pipelined"]
    for cause in causes:
        for state in states:
            for wq, wr in ((0, False), (1, True), (2, False)):
                if tier == "quick" and (wq == 2 and state not in ("idle", "mid_q2_in")):
                    continue
                steps = [Gen.open("O", clean=False), Gen.sub("O", ("w/#", 2)), Gen.open("L", clean=False), Gen.sub("L", ("w/#", 1)), Gen.do("close", "L")]
                f = {"op": rng.randint(3, 7), "when": rng.choice(["before", "after"])} if cause == "fault" else None
                steps.append(Gen.open("W", cid="w", clean=False, will=msg("w/1", wq, "will", ret=wr), ka=1 if cause == "keepalive" else 0, fault=f))
                if state == "mid_q1_in":
                    steps += [Gen.sub("W", ("x", 1)), Gen.do("ackmode", "W", mode="manual"), Gen.open("P"), Gen.pub("P", "x", 1, "P#1")]
                elif state == "mid_q2_in":
                    steps += [Gen.sub("W", ("x", 2)), Gen.do("ackmode", "W", mode="manual"), Gen.open("P"), Gen.pub("P", "x", 2, "P#1")]
                elif state == "mid_q2_out":
                    steps += [Gen.do("ackmode", "W", mode="manual"), Gen.pub("W", "y", 2, "W#1")]
                elif state == "pipelined":
                    steps += [Gen.pub("W", "y", 1, "W#1"), Gen.pub("W", "y", 0, "W#2")]
                if cause == "disconnect":
                    steps.append(Gen.do("disconnect", "W"))
                elif cause == "close":
                    steps.append(Gen.do("close", "W"))
                elif cause == "cut":
                    steps.append(Gen.do("cut", "W"))
                elif cause == "protocol":
                    steps.append(Gen.do("raw", "W", pkt={"t": "SUBACK", "id": 3, "codes": [0]}))
                elif cause == "second_connect":
                    steps.append(Gen.do("raw", "W", pkt={"t": "CONNECT", "cid": "w", "clean": True}))
                elif cause == "keepalive":
                    steps.append(Gen.do("wait", "W", ms=1800))
                elif cause == "takeover":
                    steps.append(Gen.open("W2", cid="w", clean=rng.random() < 0.5))
                elif cause == "backendclose":
                    steps.append(Gen.do("backendclose", "W"))
                elif cause == "fault":
                    steps += [Gen.do("ping", "W"), Gen.do("ping", "W"), Gen.do("ping", "W")]
                if cause != "backendclose":
                    steps += [Gen.open("L", clean=False), Gen.open("T"), Gen.sub("T", ("w/#", 2))]
                g.add(steps, window=5, queue=20, maxka_ms=0)
    # rejected authentication: no will; a DISCONNECT that is processed: no will
    g.add([Gen.open("O"), Gen.sub("O", ("#", 2)), Gen.open("W", will=msg("w/1", 1, "will", ret=True), user="u", **{"pass": "bad"}), Gen.open("T"), Gen.sub("T", ("#", 1))],
          creds={"u": "p"}, window=5)
    g.add([Gen.open("O", user="u", **{"pass": "p"}), Gen.sub("O", ("#", 2)), Gen.open("W", will=msg("w/1", 1, "will", ret=True), user="u", **{"pass": "p"}), Gen.do("cut", "W")],
          creds={"u": "p"}, window=5)
    # failure between CONNACK and the end of connect processing (resend phase): the will is owed
    for k in range(2, 6):
        for when in ("before", "after"):
            g.add([Gen.open("O"), Gen.sub("O", ("w/#", 1)), Gen.open("W", cid="w", clean=False), Gen.sub("W", ("x", 1)), Gen.do("ackmode", "W", mode="manual"),
                   Gen.open("P"), Gen.pub("P", "x", 1, "P#1"), Gen.pub("P", "x", 1, "P#2"), Gen.do("cut", "W"),
                   Gen.open("W", cid="w", clean=False, will=msg("w/1", 1, "will"), fault={"op": k, "when": when})], window=5)
    return g.scripts


# ---------------------------------------------------------------- C13: takeover

def takeover(seed, tier):
    g = Gen("takeover", seed, 13000)
    rng = g.rng
    n = 60 if tier == "thorough" else 16
    for k in range(n):
        steps = [Gen.open("O"), Gen.sub("O", ("w/#", 1)), Gen.open("V", cid="x", clean=False, will=msg("w/v", 1, "will-v")), Gen.sub("V", ("t", rng.randint(1, 2)))]
        victim = rng.choice(["idle", "mid", "dying", "blocked"])
        if victim in ("mid", "blocked"):
            steps += [Gen.do("ackmode", "V", mode="manual"), Gen.open("P"), Gen.pub("P", "t", 1, "P#1"), Gen.pub("P", "t", 2, "P#2")]
        else:
            steps += [Gen.open("P")]
        ncontenders = rng.randint(2, 4 if tier == "quick" else 8)
        for i in range(ncontenders):
            steps.append(Gen.open("N%d" % i, cid="x", clean=rng.random() < 0.3, will=msg("w/n%d" % i, 1, "will-n%d" % i), nowait=False))
        if victim == "dying":
            steps.insert(len(steps) - ncontenders, Gen.do("cut", "V"))
        steps += [Gen.pub("P", "t", 1, "P#9")]
        g.add(steps, mode="concurrent" if k % 2 == 0 else "step", window=2, queue=20, holdterm_ms=rng.choice([0, 0, 8]))
    # sequential takeovers: the session (subscriptions, queued and in-flight messages) passes on intact
    for clean in (False,):
        g.add([Gen.open("A", cid="x", clean=False), Gen.sub("A", ("t", 2)), Gen.do("ackmode", "A", mode="manual"), Gen.open("P"),
               Gen.pub("P", "t", 1, "P#1"), Gen.pub("P", "t", 2, "P#2"), Gen.pub("P", "t", 1, "P#3"),
               Gen.open("B", cid="x", clean=False), Gen.do("ackmode", "B", mode="manual"), Gen.open("C", cid="x", clean=False), Gen.do("ack", "C", n=0), Gen.do("ack", "C", n=0)],
              window=2, queue=20)
    return g.scripts


# ---------------------------------------------------------------- C14: hostile clients, failing backend, shutdown

RAW = [{"t": "PUBACK", "id": 7}, {"t": "PUBCOMP", "id": 8}, {"t": "PUBREC", "id": 9}, {"t": "PUBREL", "id": 10}, {"t": "CONNACK"},
       {"t": "SUBACK", "id": 1, "codes": [0]}, {"t": "UNSUBACK", "id": 2}, {"t": "PINGRESP"}, {"t": "PINGREQ"},
       {"t": "UNSUBSCRIBE", "id": 4, "topics": ["nope", "#"]}, {"t": "SUBSCRIBE", "id": 5, "subs": [["", 0], ["a/#/b", 1], ["\u0000", 2]]},
       {"t": "PUBLISH", "id": 0, "msg": {"topic": "a/+", "q": 0, "m": "h0"}}, {"t": "PUBLISH", "id": 11, "msg": {"topic": "#", "q": 1, "m": "h1"}},
       {"t": "PUBLISH", "id": 12, "msg": {"topic": "a", "q": 2, "m": "h2"}}, {"t": "CONNECT", "cid": "h", "clean": True}, {"t": "DISCONNECT"}]


def hostile(seed, tier):
    g = Gen("hostile", seed, 14000)
    rng = g.rng
    n = 120 if tier == "thorough" else 30
    for k in range(n):
        steps = [Gen.open("W1", clean=False, will=msg("w/1", 1, "will-1")), Gen.sub("W1", ("a/#", 1), ("w/#", 1)), Gen.open("W2"), Gen.sub("W2", ("#", 2)),
                 Gen.open("H", cid="h", clean=rng.random() < 0.5, will=msg("w/h", 1, "will-h"))]
        for j in range(rng.randint(1, 8)):
            steps.append(Gen.do("raw", "H", pkt=rng.choice(RAW)))
            if rng.random() < 0.3:
                steps.append(Gen.pub("W2", "a/b", rng.randint(0, 2), "W#%d" % j))
        steps += [Gen.pub("W2", "a", 1, "W#z"), Gen.do("ping", "W1"), Gen.do("ping", "W2")]
        g.add(steps, mode="concurrent" if k % 3 == 0 else "step", window=3, queue=20)
    # more unsolicited acknowledgements than there are window slots / tokens, then continued use
    for t in ("PUBACK", "PUBCOMP", "PUBREC"):
        g.add([Gen.open("W2"), Gen.sub("W2", ("#", 1)), Gen.open("H", will=msg("w/h", 1, "will-h"))] + [Gen.do("raw", "H", pkt={"t": t, "id": 20 + i}) for i in range(5)] +
              [Gen.do("ping", "H"), Gen.pub("H", "a", 1, "H#1"), Gen.do("cut", "H")], window=2, subpar=2, pubpar=2)
    # more requests than tokens: every one must still be answered
    g.add([Gen.open("H")] + [Gen.unsub("H", "t%d" % i) for i in range(7)] + [Gen.sub("H", ("a", 1)), Gen.do("ping", "H")], window=2, subpar=3, pubpar=2)
    g.add([Gen.open("H")] + [Gen.sub("H", ("t%d" % i, 1)) for i in range(7)] + [Gen.pub("H", "t1", 1, "H#%d" % i) for i in range(6)] + [Gen.do("ping", "H")], window=2, subpar=3, pubpar=2)
    # long topics and filters at the 65535 boundary routed to a witness
    for ln in (65535, 65534, 40000):
        t = "big/" + "x" * (ln - 4)
        g.add([Gen.open("W2"), Gen.sub("W2", ("big/#", 1)), Gen.open("H"), Gen.pub("H", t, 1, "H#1"), Gen.pub("H", "big/y", 1, "H#2"), Gen.do("ping", "W2")], window=3)
    # backend calls failing at every call site
    for site in ("auth", "setup", "restore", "sub", "unsub", "pub", "deq", "term"):
        for nth in (1, 2, 3):
            g.add([Gen.open("W1", clean=False, will=msg("w/1", 1, "will-1")), Gen.sub("W1", ("a/#", 1)), Gen.open("H", cid="h", clean=False, will=msg("w/h", 0, "will-h")),
                   Gen.sub("H", ("b", 1)), Gen.unsub("H", "b"), Gen.pub("H", "a/x", 1, "H#1"), Gen.pub("H", "a/y", 2, "H#2"), Gen.do("ping", "W1")],
                  window=3, fail={site: nth})
    # backend shutdown racing with connection setup
    for k in range(6 if tier == "quick" else 20):
        g.add([Gen.open("W1", will=msg("w/1", 1, "will-1")), Gen.open("W2", clean=False), Gen.sub("W2", ("#", 1)), Gen.do("backendclose", "X"),
               Gen.open("N1", nowait=True), Gen.open("N2", cid="w2", clean=False, nowait=True)], mode="concurrent", window=3, holdterm_ms=rng.choice([0, 5]))
    return g.scripts


# ---------------------------------------------------------------- C20: protocol discipline

def protocol(seed, tier):
    g = Gen("protocol", seed, 20000)
    rng = g.rng
    first = [p for p in RAW if p["t"] != "CONNECT"]
    # anything but CONNECT as first packet: closed without a reply
    for p in first:
        g.add([Gen.open("W2"), Gen.sub("W2", ("#", 1)), Gen.open("H", mode="noconnect"), Gen.do("raw", "H", pkt=p), Gen.do("raw", "H", pkt={"t": "PINGREQ"})], window=3)
    # failed authentication: CONNACK 5 and nothing more
    for will in (None, msg("w/h", 1, "will-h", ret=True)):
        g.add([Gen.open("W2", user="u", **{"pass": "p"}), Gen.sub("W2", ("#", 1)), Gen.open("H", user="u", will=will, nowait=True, **{"pass": "wrong"}),
               Gen.sub("H", ("#", 1)), Gen.pub("H", "a", 1, "H#1"), Gen.open("T", user="u", **{"pass": "p"}), Gen.sub("T", ("#", 2))], creds={"u": "p"}, window=3)
    # every sequence of length <= 2 (sampled beyond) of client packets after an accepted CONNECT, pipelined without waiting
    seqs = [[a] for a in RAW] + [[a, b] for a in RAW for b in RAW if rng.random() < (0.25 if tier == "quick" else 1.0)]
    for s in seqs:
        g.add([Gen.open("H", cid="h", clean=False)] + [Gen.do("raw", "H", pkt=p) for p in s] + [Gen.do("ping", "H")], mode="step", window=2, subpar=2, pubpar=2)
    # SUBSCRIBE with 1-8 filters and arbitrary ids; UNSUBSCRIBE; PINGREQ - pipelined
    for k in range(30 if tier == "thorough" else 10):
        steps = [Gen.open("H", cid="h", clean=rng.random() < 0.5)]
        for j in range(rng.randint(2, 8)):
            r = rng.random()
            pid = rng.choice([1, 2, 255, 256, 65535, rng.randint(1, 65535)])
            if r < 0.5:
                steps.append(Gen.do("raw", "H", pkt={"t": "SUBSCRIBE", "id": pid, "subs": [[rng.choice(FILTERS), rng.randint(0, 2)] for _ in range(rng.randint(1, 8))]}))
            elif r < 0.8:
                steps.append(Gen.do("raw", "H", pkt={"t": "UNSUBSCRIBE", "id": pid, "topics": [rng.choice(FILTERS) for _ in range(rng.randint(1, 4))]}))
            else:
                steps.append(Gen.do("ping", "H"))
        g.add(steps, mode="concurrent", window=3, subpar=rng.choice([1, 2, 10]))
    return g.scripts
