"""Scenario families for the client properties C09 / C10 (validated against Client.tla)."""
import random


class CGen:
    def __init__(self, family, seed, base):
        self.family, self.rng, self.n, self.scripts = family, random.Random(seed), base, []

    def add(self, steps, mode="step", **config):
        self.n += 1
        self.scripts.append({"id": self.n, "family": self.family, "mode": mode, "config": config, "steps": steps})


def pub(topic, q, m, th=0, **kw):
    s = {"do": "publish", "th": th, "msg": {"topic": topic, "q": q, "m": m}}
    s.update(kw)
    return s


def do(what, **kw):
    s = {"do": what}
    s.update(kw)
    return s


def bsend(t, id=0, **kw):
    p = {"t": t, "id": id}
    p.update(kw)
    return {"do": "b.send", "pkt": p}


def faults(kmax, step=1):
    for k in range(1, kmax + 1, step):
        for when in ("before", "after"):
            yield {"op": k, "when": when}


def outgoing(seed, tier):
    """C09: QoS>=1 publishes, futures, close/disconnect, failures of every connection and session operation"""
    g = CGen("client-out", seed, 9000)
    rng = g.rng
    base = [do("subscribe", subs=[["a", 1], ["b", 2]]), pub("a", 1, "C#1"), pub("a", 2, "C#2"), pub("b", 0, "C#3"), do("unsubscribe", topics=["b"])]
    # connection dropped before/after every client-side operation, then a new client resumes with the same session
    kmax = 16 if tier == "thorough" else 12
    for clean in (False, True):
        for manual in (False, True):
            for f in faults(kmax):
                if tier == "quick" and (f["op"] + manual + clean) % 2 == 0 and f["op"] > 6:
                    continue
                steps = [do("connect", fault=f)]
                if manual:
                    steps.append(do("b.mode", mode="manual"))
                steps += base
                if manual:
                    steps += [do("b.ack", n=2), do("b.ack", n=1, mode="last")]
                steps += [do("b.cut"), do("newclient"), do("b.mode", mode="auto"), do("connect"), do("b.ack", n=0), pub("a", 1, "C#9"), do(rng.choice(["disconnect", "close"]))]
                g.add(steps, clean=clean)
    # acknowledgements out of order, missing, spurious; several API goroutines
    for k in range(40 if tier == "thorough" else 12):
        steps = [do("connect"), do("b.mode", mode="manual")]
        n = rng.randint(2, 6)
        for i in range(n):
            steps.append(pub(rng.choice(["a", "b"]), rng.choice([1, 2, 1, 0]), "C#%d" % (i + 1), th=i % 3))
            if rng.random() < 0.3:
                steps.append(do("subscribe", subs=[["t%d" % i, rng.randint(0, 2)]], th=i % 3))
        for i in range(n + 2):
            r = rng.random()
            if r < 0.5:
                steps.append(do("b.ack", n=1, mode=rng.choice(["", "last"])))
            elif r < 0.7:
                steps.append(bsend(rng.choice(["PUBACK", "PUBCOMP", "PUBREC", "SUBACK", "UNSUBACK"]), id=rng.randint(1, 9), codes=[0]))
        steps += [do("b.ack", n=0), do("b.ack", n=0)]
        steps.append(do(rng.choice(["disconnect", "close", "b.cut", "b.close"]), timeout_ms=rng.choice([0, 50])))
        if rng.random() < 0.5:
            steps += [do("b.cut"), do("newclient"), do("connect"), do("b.ack", n=0), do("close")]
        g.add(steps, mode="concurrent" if k % 2 else "step", clean=rng.random() < 0.3)
    # CONNACK variants: denied, missing (then close / disconnect / drop), something else first
    for rc in (1, 2, 3, 4, 5):
        g.add([do("connect"), pub("a", 1, "C#1"), do("close")], deny=rc)
    g.add([do("connect"), pub("a", 1, "C#1"), do("close")], noconnack=True)
    g.add([do("connect"), do("wait", ms=5), do("b.cut"), do("close")], noconnack=True)
    g.add([do("connect"), bsend("PUBACK", id=3), do("close")], noconnack=True)
    g.add([do("connect"), bsend("CONNACK", rc=0), bsend("CONNACK", rc=0), pub("a", 1, "C#1"), do("disconnect")], noconnack=True)
    g.add([do("connect"), do("disconnect"), do("close"), pub("a", 1, "C#1"), do("b.cut"), do("newclient"), do("close"), do("connect"), do("connect"), do("close")])
    # dial refused / CONNECT unsendable: later Close must return
    g.add([do("connect"), do("close"), do("b.cut"), do("newclient"), do("connect"), pub("a", 1, "C#1"), do("close")], dialfail=1)
    for f in faults(1):
        g.add([do("connect", fault=f), do("close"), do("disconnect"), do("b.cut"), do("newclient"), do("connect"), pub("a", 2, "C#1"), do("close")])
    # rejected subscription with and without validation
    for noval in (False, True):
        g.add([do("connect"), do("subscribe", subs=[["a", 1]]), pub("a", 1, "C#1"), pub("a", 1, "C#2"), do("close")], subfail=True, novalidate=noval)
    # failures of every session operation
    for op in ("save", "delete", "all", "reset", "lookup"):
        for nth in (1, 2, 3):
            for clean in (False, True):
                g.add([do("connect"), do("subscribe", subs=[["a", 2]]), pub("a", 1, "C#1"), pub("a", 2, "C#2"),
                       bsend("PUBLISH", id=5, msg={"topic": "a", "q": 2, "m": "B#1"}), bsend("PUBREL", id=5), do("b.cut"),
                       do("newclient"), do("connect"), pub("a", 1, "C#3"), do("close")], sessfail={op: nth}, clean=clean)
    # pending futures when cleanup itself meets a failing session (clean session: Reset fails at the 2nd/3rd call)
    for nth in (2, 3):
        for end in ("close", "disconnect", "b.cut"):
            g.add([do("connect"), do("b.mode", mode="manual"), pub("a", 1, "C#1"), do("subscribe", subs=[["a", 1]]), pub("a", 2, "C#2"), do(end), do("wait", ms=5),
                   do("close")], sessfail={"reset": nth}, clean=True)
    # Disconnect(timeout) while acknowledgements are missing: after the wait it still disconnects (DISCONNECT sent, connection closed,
    # every unresolved future cancelled)
    for q in (1, 2):
        for to in (20, 60):
            g.add([do("connect"), do("b.mode", mode="manual"), pub("a", q, "C#1"), do("subscribe", subs=[["a", 1]]), do("disconnect", timeout_ms=to), do("wait", ms=5),
                   pub("a", 1, "C#2"), do("close")], clean=(q == 2))
    # a publish racing with the loss of the connection (die() runs without the API mutex) - buffered transport
    for q in (1, 2):
        g.add([do("connect"), pub("a", q, "C#1"), pub("a", q, "C#2", bg=True), do("wait", ms=20), do("b.cut"), do("wait", ms=30), do("release"), do("wait", ms=30),
               do("close")], gatenext=2, asyncbuf=True)
    return g.scripts


def incoming(seed, tier):
    """C10: broker scripts over {PUBLISH(id,qos,dup), PUBREL(id), drop+resume}, callback results, both callback modes, send failures"""
    g = CGen("client-in", seed, 10000)
    rng = g.rng
    def script(n):
        steps, known = [], []
        for i in range(n):
            r = rng.random()
            pid = rng.randint(1, 3)
            if r < 0.55:
                q = rng.choice([0, 1, 2, 2])
                steps.append(bsend("PUBLISH", id=pid if q else 0, dup=rng.random() < 0.2, msg={"topic": "a", "q": q, "m": "B#%d" % (i + 1)}))
                if q == 2:
                    known.append(pid)
            elif r < 0.9:
                steps.append(bsend("PUBREL", id=rng.choice(known) if known and rng.random() < 0.8 else pid))
            else:
                steps += [do("b.cut"), do("newclient"), do("connect")]
        return steps
    n = 120 if tier == "thorough" else 30
    for k in range(n):
        steps = [do("connect")] + script(rng.randint(3, 8 if tier == "quick" else 12)) + [do("wait", ms=2)]
        cb = sorted(rng.sample(range(1, 8), rng.choice([0, 0, 1, 2])))
        g.add(steps, early=(k % 3 == 0), cbfail=cb)
    # send failure at every acknowledgement the client writes, then resume and retransmission by the broker
    base = [bsend("PUBLISH", id=1, msg={"topic": "a", "q": 1, "m": "B#1"}), bsend("PUBLISH", id=2, msg={"topic": "a", "q": 2, "m": "B#2"}), bsend("PUBREL", id=2),
            bsend("PUBLISH", id=3, msg={"topic": "a", "q": 2, "m": "B#3"}), bsend("PUBREL", id=3)]
    for early in (False, True):
        for f in faults(12 if tier == "quick" else 16):
            # (a fault beyond the last operation of this connection never fires: the script cuts the connection itself before it goes on)
            g.add([do("connect", fault=f)] + base + [do("b.cut"), do("newclient"), do("connect"),
                   bsend("PUBLISH", id=2, dup=True, msg={"topic": "a", "q": 2, "m": "B#2"}), bsend("PUBREL", id=2),
                   bsend("PUBLISH", id=3, dup=True, msg={"topic": "a", "q": 2, "m": "B#3"}), bsend("PUBREL", id=3), bsend("PUBREL", id=3), bsend("PUBREL", id=9)], early=early)
    # callback refusing a message: no acknowledgement, connection closed, redelivery after resume
    for q in (1, 2):
        for nth in (1, 2):
            g.add([do("connect"), bsend("PUBLISH", id=1, msg={"topic": "a", "q": q, "m": "B#1"}), bsend("PUBREL", id=1),
                   bsend("PUBLISH", id=2, msg={"topic": "a", "q": q, "m": "B#2"}), bsend("PUBREL", id=2), do("b.cut"), do("newclient"), do("connect"),
                   bsend("PUBLISH", id=1, dup=True, msg={"topic": "a", "q": q, "m": "B#1"}), bsend("PUBREL", id=1)], cbfail=[nth])
    return g.scripts


def service(seed, tier):
    """C17: failure schedules x API call sequences x Start/Stop"""
    g = CGen("service", seed, 17000)
    rng = g.rng
    topics = ["a", "b", "c/d", "e/+", "#"]

    def cmd(i, th=0):
        r = rng.random()
        if r < 0.45:
            return {"do": "svc.publish", "th": th, "msg": {"topic": rng.choice(["a", "b", "c/d"]), "q": rng.choice([0, 1, 1, 2]), "m": "S#%d" % i}}
        if r < 0.8:
            return {"do": "svc.subscribe", "th": th, "subs": [[t, rng.randint(0, 2)] for t in rng.sample(topics, rng.randint(1, 3))]}
        return {"do": "svc.unsubscribe", "th": th, "topics": rng.sample(topics, rng.randint(1, 2))}

    n = 160 if tier == "thorough" else 45
    for k in range(n):
        clean = rng.random() < 0.35
        cfgk = {"clean": clean}
        ndial = 6
        cfgk["dialfails"] = sorted(rng.sample(range(1, ndial), rng.choice([0, 0, 1, 2])))
        cfgk["noconnacks"] = sorted(rng.sample(range(1, ndial), rng.choice([0, 0, 1])))
        cfgk["denies"] = sorted(rng.sample(range(1, ndial), rng.choice([0, 0, 1])))
        cfgk["subfails"] = sorted(rng.sample(range(1, ndial), rng.choice([0, 0, 0, 1])))
        cfgk["faults"] = [rng.choice([None, None, {"op": rng.randint(1, 12), "when": rng.choice(["before", "after"])}]) for _ in range(ndial)]
        steps = []
        i = 0
        for _ in range(rng.randint(0, 3)):          # commands issued before Start
            i += 1
            steps.append(cmd(i))
        steps.append({"do": "svc.start"})
        for _ in range(rng.randint(3, 10)):
            r = rng.random()
            if r < 0.6:
                i += 1
                steps.append(cmd(i, th=rng.randint(0, 2)))
            elif r < 0.7:
                steps.append({"do": "b.cut"})
            elif r < 0.78:
                steps.append({"do": "wait", "ms": rng.choice([3, 15, 40])})
            elif r < 0.86:
                steps += [{"do": "b.mode", "mode": "manual"}]
            elif r < 0.93:
                steps += [{"do": "b.ack", "n": rng.randint(0, 2)}, {"do": "b.mode", "mode": "auto"}]
            else:
                steps += [{"do": "svc.stop", "clear": rng.random() < 0.5}, {"do": "svc.start"}]
        steps += [{"do": "b.mode", "mode": "auto"}, {"do": "b.ack", "n": 0}, {"do": "wait", "ms": 30}]
        if rng.random() < 0.6:
            steps.append({"do": "svc.stop", "clear": rng.random() < 0.6})
            if rng.random() < 0.5:
                i += 1
                steps += [cmd(i), {"do": "svc.start"}, {"do": "wait", "ms": 30}]
        g.add(steps, mode="concurrent" if k % 4 == 3 else "step", **cfgk)
    # directed: service never online, Stop(true) must cancel queued commands; restart afterwards
    g.add([{"do": "svc.start"}, cmd(1), cmd(2), cmd(3), {"do": "wait", "ms": 20}, {"do": "svc.stop", "clear": True}, {"do": "svc.start"}, cmd(4), {"do": "wait", "ms": 40}],
          dialfails=[1, 2, 3, 4, 5, 6, 7, 8, 9, 10, 11, 12, 13, 14, 15, 16], clean=False)
    # directed: CONNECT cannot be sent (first operation fails) several times, then Stop
    g.add([{"do": "svc.start"}, cmd(1), {"do": "wait", "ms": 40}, {"do": "svc.stop", "clear": False}, {"do": "svc.start"}, {"do": "wait", "ms": 40}],
          faults=[{"op": 1, "when": "before"}] * 3, clean=False)
    # directed: rejected subscription; subscribe / unsubscribe bookkeeping across reconnects
    for clean in (False, True):
        g.add([{"do": "svc.start"}, {"do": "svc.subscribe", "subs": [["a", 1]]}, {"do": "svc.subscribe", "subs": [["b", 2], ["c/d", 0]]}, {"do": "b.cut"},
               {"do": "wait", "ms": 30}, {"do": "svc.unsubscribe", "topics": ["a"]}, {"do": "svc.subscribe", "subs": [["b", 0]]}, {"do": "b.cut"}, {"do": "wait", "ms": 30},
               {"do": "svc.publish", "msg": {"topic": "a", "q": 1, "m": "S#1"}}, {"do": "svc.stop", "clear": True}], clean=clean, subfails=[2])
    # directed: futures survive a reconnect (persistent) / are displaced by id reuse (clean)
    for clean in (False, True):
        g.add([{"do": "svc.start"}, {"do": "wait", "ms": 20}, {"do": "b.mode", "mode": "manual"}, {"do": "svc.publish", "msg": {"topic": "a", "q": 1, "m": "S#1"}},
               {"do": "svc.publish", "msg": {"topic": "a", "q": 2, "m": "S#2"}}, {"do": "b.cut"}, {"do": "b.mode", "mode": "auto"}, {"do": "wait", "ms": 40},
               {"do": "svc.publish", "msg": {"topic": "a", "q": 1, "m": "S#3"}}, {"do": "wait", "ms": 20}, {"do": "svc.stop", "clear": True}], clean=clean)
    # directed: Start from another goroutine while a slow Stop(true) is still under way (an unacknowledged publish makes the disconnect
    # wait): the restart begins only after the stop is complete, commands issued after it are not touched by the old stop
    for d in (4, 12):
        g.add([{"do": "b.mode", "th": 0, "mode": "manual"}, {"do": "svc.start", "th": 0}, {"do": "wait", "th": 0, "ms": 25},
               {"do": "svc.publish", "th": 0, "msg": {"topic": "a", "q": 1, "m": "S#1"}},
               {"do": "wait", "th": 1, "ms": 50}, {"do": "svc.stop", "th": 1, "clear": True},
               {"do": "wait", "th": 2, "ms": 50 + d}, {"do": "svc.start", "th": 2}, {"do": "svc.subscribe", "th": 2, "subs": [["a", 1]]},
               {"do": "wait", "th": 2, "ms": 60}, {"do": "b.mode", "th": 2, "mode": "auto"}, {"do": "b.ack", "th": 2, "n": 0}, {"do": "wait", "th": 2, "ms": 30}],
              mode="concurrent", clean=False)
    # directed: Start / Stop(true) / Start, then a drop while a publish is unacknowledged (the store must be protected again)
    g.add([{"do": "svc.start"}, {"do": "wait", "ms": 20}, {"do": "svc.stop", "clear": True}, {"do": "svc.start"}, {"do": "wait", "ms": 20}, {"do": "b.mode", "mode": "manual"},
           {"do": "svc.publish", "msg": {"topic": "a", "q": 1, "m": "S#1"}}, {"do": "b.cut"}, {"do": "b.mode", "mode": "auto"}, {"do": "wait", "ms": 50}, {"do": "svc.stop", "clear": False}], clean=False)
    return g.scripts


def service_order(seed, tier):
    """C15 (service half): more commands than the command queue holds, issued by ONE goroutine while the service is not yet online:
    they must be carried out in the order issued"""
    g = CGen("service-order", seed, 15500)
    rng = g.rng
    for k in range(8 if tier == "quick" else 30):
        qs = rng.choice([1, 2, 3])
        n = qs + rng.randint(3, 8)
        steps = [{"do": "wait", "th": 0, "ms": rng.choice([5, 15, 25])}, {"do": "svc.start", "th": 0}]
        for i in range(n):
            r = rng.random()
            if r < 0.7:
                steps.append({"do": "svc.publish", "th": 1, "msg": {"topic": "a", "q": rng.choice([0, 0, 1, 2]), "m": "S#%d" % (i + 1)}})
            elif r < 0.85:
                steps.append({"do": "svc.subscribe", "th": 1, "subs": [[rng.choice(["a", "b", "c/d"]), rng.randint(0, 2)]]})
            else:
                steps.append({"do": "svc.unsubscribe", "th": 1, "topics": [rng.choice(["a", "b"])]})
        g.add(steps, mode="concurrent", clean=rng.random() < 0.5, queuesize=qs)
    return g.scripts
