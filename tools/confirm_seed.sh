#!/bin/bash
# usage: tools/confirm_seed.sh <Cxx> <n> <pkgdir> [run-regex]
# Confirms a seeded change in its scratch worktree /tmp/seed/<Cxx> (pinned HEAD): demo passes without, fails with,
# existing tests of the touched packages still pass with the change. Then files it under /verif/seeded/<Cxx>-<n>/.
set -u
P=$1; N=$2; PKG=$3; RX=${4:-Seed}
ROOT=${SEEDROOT:-/tmp/seed}; SUF=${SEEDSUF:-}; WT=$ROOT/$P; OUT=$ROOT/out/$P
export GOFLAGS=-mod=mod GOPROXY=off GOSUMDB=off GOTOOLCHAIN=local
cd $WT || exit 3
git checkout -q -- . ; git clean -fdq
mkdir -p $PKG; cp $OUT/demo$N/*.go $PKG/ || exit 3
echo "--- demo without change"; go test -vet=off -count=3 -run "$RX" ./$PKG/ 2>&1 | tail -2; r0=${PIPESTATUS[0]}
git apply $OUT/patch$N.diff || { echo "patch failed"; exit 3; }
echo "--- demo with change"; go test -vet=off -count=3 -run "$RX" ./$PKG/ 2>&1 | tail -2; r1=${PIPESTATUS[0]}
rm -f $PKG/seed*_test.go
echo "--- existing tests with change"
# (the transport package's own tests need a TLS certificate and are not part of the passing baseline)
touched=$(git diff --name-only | xargs -n1 dirname | sort -u | grep -v '^transport' | sed 's#^#./#; s#$#/...#' | tr '\n' ' ')
go build ./... && go test -vet=off -count=1 -run '^Test' $touched ./broker/ ./client/ 2>&1 | tail -6; r2=${PIPESTATUS[0]}
git checkout -q -- . ; git clean -fdq
echo "without=$r0 with=$r1 suite=$r2"
if [ $r0 = 0 ] && [ $r1 != 0 ] && [ $r2 = 0 ]; then
  D=/verif/seeded/$P$SUF-$N; mkdir -p $D/demo
  cp $OUT/patch$N.diff $D/patch.diff; cp $OUT/demo$N/*.go $D/demo/; cp $OUT/notes$N.md $D/notes.md
  echo CONFIRMED $D
else echo NOT-CONFIRMED; fi
