#!/bin/bash
# usage: tools/run_mutants.sh [tier]  -- applies every /verif/mutants/*.diff to /repo in turn, runs the property's check, reverts,
# compares with the expectation in catalogue.json (violation | ok).  "ok" mutants are property-preserving refactorings: a VIOLATION
# on one of them is a false alarm of the machinery.
TIER=${1:-quick}; cd /verif; bad=0
for f in mutants/*.diff; do
  id=$(basename $f .diff); P=${id%%-*}
  exp=$(python3 -c "import json;print(json.load(open('mutants/catalogue.json'))['$id']['expected'])")
  if ! git -C /repo diff --quiet; then echo "/repo dirty"; exit 3; fi
  git -C /repo apply /verif/$f || { echo "$id NOAPPLY"; continue; }
  ./check $P --tier $TIER > /tmp/mutant.out 2>&1; rc=$?
  git -C /repo checkout -- . ; git -C /repo clean -fdq
  got=$([ $rc = 1 ] && echo violation || ([ $rc = 0 ] && echo ok || echo infra))
  [ "$got" = "$exp" ] && verdict=AS-EXPECTED || { verdict=UNEXPECTED; bad=1; }
  echo "$id expected=$exp got=$got $verdict"
done
exit $bad
