#!/bin/bash
# usage: tools/seed_matrix.sh [tier] [ids...]  -- applies every /verif/seeded/<id>/patch.diff to /repo in turn, runs the property's check, reverts; prints a table
TIER=${1:-quick}; shift
cd /verif
IDS=${@:-$(ls seeded)}
for id in $IDS; do
  P=${id%%-*}; P=${P%b}; P=${P%r}; P=${P%s}
  if ! git -C /repo diff --quiet; then echo "$id /repo dirty"; exit 3; fi
  PATCH=/verif/seeded/$id/patch.diff; [ -f /verif/seeded/$id/patch-current.diff ] && PATCH=/verif/seeded/$id/patch-current.diff
  if ! git -C /repo apply --check $PATCH 2>/dev/null; then echo "$id $P NOAPPLY"; continue; fi
  git -C /repo apply $PATCH
  out=$(./check $P --tier $TIER 2>&1); rc=$?
  git -C /repo checkout -- . ; git -C /repo clean -fdq
  first=$(echo "$out" | grep -m1 "first:" | cut -c1-260)
  echo "$id $P rc=$rc $(echo "$out" | tail -1 | cut -c1-80) | $first"
done
