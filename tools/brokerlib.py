"""Broker conformance pipeline shared by C06 C07 C08 C11 C12 C13 C14 C15 C16 C20:
scenario generation, sharded driving of the real broker, batched TLC trace validation,
classification of rejected traces (tagged guards at the high-water mark), re-driving of
rejected scenarios with slow timing before anything is reported."""
import json, os, random, re, subprocess, itertools
import lib

TOPICS = ["a", "a/b", "b", "a/b/c", "c"]
FILTERS = ["a", "a/b", "a/+", "a/#", "+", "#", "b", "+/b", "a/b/c", "+/+"]

# events written by the harness itself: a rejection there is a harness/modelling problem, never a violation
HARNESS_EVENTS = {"config", "popen", "psend", "precv", "pclose", "cut", "pnote", "peof", "newconn", "bclose.call", "bclose.ret", "disconnected",
                  "api.call", "newclient", "gate.hold", "gate.release", "dial", "svc.call"}

KINDS = {
    "broker": dict(cmd="broker", module="BrokerTrace", cfg="BrokerTrace.cfg"),
    "client": dict(cmd="client", module="ClientTrace", cfg="ClientTrace.cfg"),
    "service": dict(cmd="service", module="ServiceTrace", cfg="ServiceTrace.cfg"),
    "conn": dict(cmd="conn-conc", module="ConnTrace", cfg="ConnTrace.cfg"),
}


def fallback_client(ev, before=()):
    """property of a rejected client event without a tagged guard: by the flow it belongs to - the packet the processor
    received last decides for session operations and sends (inbound PUBLISH/PUBREL handling is C10, the rest C09)"""
    e, t = ev.get("ev"), ev.get("pkt", {}).get("t")
    last = None
    for b in reversed(list(before)):
        if b.get("ev") == "crecv":
            last = b.get("pkt", {}).get("t")
            break
    inbound = last in ("PUBLISH", "PUBREL")
    if e in ("csend", "csend_err", "csend_buf"):
        return "C10" if t in ("PUBACK", "PUBREC", "PUBCOMP") else "C09"
    if e in ("crecv", "cb.call"):
        return "C10"
    if e.startswith("sess."):
        if e in ("sess.delete", "sess.save", "sess.lookup") and last is not None:
            return "C10" if inbound else "C09"
        return "C10" if ev.get("d") == "in" else "C09"
    if e in ("svc.ret", "svc.online", "svc.offline", "svc.error", "svc.msg"):
        return "C17"
    return "C09"


# rejected gomqtt-originated event without a tagged guard -> property by event kind
def fallback(ev):
    e, p = ev.get("ev"), ev.get("pkt", {})
    t = p.get("t")
    if e == "bsend_err" and str(ev.get("err", "")).startswith("encode:"):
        return "C14"      # the broker accepted something it cannot forward: a well-behaved receiver loses its connection
    if e in ("bsend", "bsend_err"):
        if t in ("CONNACK", "SUBACK", "UNSUBACK", "PINGRESP"):
            return "C20"
        if t in ("PUBACK", "PUBREC", "PUBCOMP"):
            return "C07"
        if t == "PUBLISH":
            return "C08" if p.get("dup") else "C06"
        if t == "PUBREL":
            return "C08"
        return "C20"
    if e in ("pub.call", "pub.ack", "pub.ret"):
        return "C12" if not ev.get("hasack", True) and e == "pub.call" else "C07"
    if e.startswith("term") or e in ("closed", "die", "bclose", "end"):
        return "C14"
    if e.startswith("setup"):
        return "C13"
    if e.startswith("auth") or e.startswith("sub.") or e.startswith("unsub."):
        return "C20"
    if e.startswith("deq."):
        return "C06"
    if e.startswith("sess."):
        return "C08" if ev.get("d") == "out" else "C07"
    if e == "precv":
        return "C06"
    if e in ("brecv", "brecv_err", "restore"):
        return "C14"
    if e == "settle":
        return "C16"
    return None


class Gen:
    """scenario builder"""

    def __init__(self, family, seed, base_id):
        self.family, self.rng, self.n = family, random.Random(seed), base_id
        self.scripts = []

    def add(self, steps, mode="step", **config):
        self.n += 1
        self.scripts.append({"id": self.n, "family": self.family, "mode": mode, "config": config, "steps": steps})
        return self.n

    @staticmethod
    def open(p, cid=None, clean=True, will=None, fault=None, resend=False, **kw):
        s = {"do": "open", "p": p, "cid": p.lower() if cid is None else cid, "clean": clean}
        if will:
            s["will"] = will
        if fault:
            s["fault"] = fault
        if resend:
            s["resend"] = True
        s.update(kw)
        return s

    @staticmethod
    def sub(p, *subs):
        return {"do": "sub", "p": p, "subs": [[f, q] for f, q in subs]}

    @staticmethod
    def unsub(p, *topics):
        return {"do": "unsub", "p": p, "topics": list(topics)}

    @staticmethod
    def pub(p, topic, q, m, ret=False, size=0, empty=False, dup=False, id=0):
        s = {"do": "pub", "p": p, "msg": {"topic": topic, "q": q, "m": m, "ret": ret, "size": size, "empty": empty}}
        if dup:
            s["dup"] = True
        if id:
            s["id"] = id
        return s

    @staticmethod
    def do(what, p, **kw):
        s = {"do": what, "p": p}
        s.update(kw)
        return s


def msg(topic, q, m, ret=False, empty=False):
    return {"topic": topic, "q": q, "m": m, "ret": ret, "empty": empty}


def multi(fn, seed, tier, reps):
    """thorough tier: the seeded scenario generator run with several seeds (ids kept distinct)"""
    out = []
    for k in range(reps if tier == "thorough" else 1):
        for sc in fn(seed + 7919 * k, tier):
            sc = dict(sc)
            sc["id"] = sc["id"] + 1000000 * k
            out.append(sc)
    return out


# ---------------------------------------------------------------- running

def run_scripts(run, scripts, tag, slow=1, timeout=900, kind="broker", race=False):
    """drive the scripts on the real broker (sharded), returns path of the concatenated trace file + crash info;
    race=True: the driver built with the Go race detector (its reports are left in run.race_reports)"""
    wd = run.wd
    drive = lib.build_harness(race=race)
    sfile = os.path.join(wd, "%s.scripts.ndjson" % tag)
    with open(sfile, "w") as f:
        for s in scripts:
            f.write(json.dumps(s) + "\n")
    shards = min(lib.NCPU - 2, max(1, len(scripts) // 4)) or 1
    procs = []
    for i in range(shards):
        out = os.path.join(wd, "%s.traces.%d.ndjson" % (tag, i))
        p = subprocess.Popen([drive, KINDS[kind]["cmd"], "-scripts", sfile, "-out", out, "-shard", str(i), "-shards", str(shards), "-slow", str(slow)],
                             stdout=subprocess.PIPE, stderr=subprocess.PIPE, text=True, env=lib.GOENV)
        procs.append((p, out))
    crashes = []
    tfile = os.path.join(wd, "%s.traces.ndjson" % tag)
    with open(tfile, "w") as allf:
        for p, out in procs:
            try:
                so, se = p.communicate(timeout=timeout)
                if race and "DATA RACE" in se:
                    run.race_reports = getattr(run, "race_reports", []) + [se[:20000]]
            except subprocess.TimeoutExpired:
                p.kill()
                so, se = p.communicate()
                running = re.findall(r"RUNNING script (\d+)", se)
                crashes.append({"kind": "hang", "script": int(running[-1]) if running else None, "stderr": se[-3000:]})
            if p.returncode not in (0, None) and ("panic:" in se or "fatal error:" in se):
                running = re.findall(r"RUNNING script (\d+)", se)
                crashes.append({"kind": "panic", "script": int(running[-1]) if running else None, "stderr": se[-6000:]})
            if os.path.exists(out):
                with open(out) as f:
                    for ln in f:
                        allf.write(ln)
    return tfile, crashes


def validate(run, tfile, tag, timeout=1800, kind="broker", dev=()):
    """one batched TLC run over all traces; returns dict tr -> result"""
    events = {}
    order = []
    with open(tfile) as f:
        for i, ln in enumerate(f, 1):
            e = json.loads(ln)
            events[i] = e
            if e["ev"] == "config":
                order.append(e["tr"])
    if not order:
        raise lib.Infra("driver produced no trace")
    # only complete traces can be validated
    ends = {e["tr"] for e in events.values() if e["ev"] == "end"}
    if set(order) != ends:
        raise lib.Infra("incomplete traces: %s" % sorted(set(order) ^ ends)[:5])
    # Conns / SKeys are written out explicitly: a `<-` substitution is re-evaluated by TLC at every use (measured 30 s vs 1.8 s)
    conns = sorted({e["c"] for e in events.values() if "c" in e})
    skeys = sorted({e["s"] for e in events.values() if e["ev"] == "setup.ret" and e.get("s")})
    cfg = open(os.path.join(lib.SPEC, KINDS[kind]["cfg"])).read()
    cfg = cfg.replace("Dev = {}", "Dev = {%s}" % ", ".join('"%s"' % d for d in dev))
    cfg = cfg.replace("Conns <- TraceConns", "Conns = {%s}" % ", ".join('"%s"' % c for c in conns))
    cfg = cfg.replace("SKeys <- TraceSKeys", "SKeys = {%s}" % ", ".join('"%s"' % k for k in skeys))
    try:
        r = lib.tlc(run.wd, KINDS[kind]["module"], cfg, workers=1, deque=True, timeout=min(timeout, 600 if getattr(run, "tier", "quick") == "quick" else 1500) if len(order) > 1 else timeout,
                    defs={"TRACE": tfile}, extra=["-nowarning"])
    except lib.Infra as e:
        if "timed out" not in str(e) or len(order) == 1:
            raise
        # the batch did not finish (the exhaustive search for a REJECTED trace can be large): decide the traces one by one,
        # each with its own time limit; a trace that stays undecided is never reported as a violation
        res, allev = {}, events
        gen = dist = 0
        for tr in order:
            one = os.path.join(run.wd, "%s.one.%d.ndjson" % (tag, tr))
            with open(one, "w") as f:
                for i in sorted(events):
                    if events[i]["tr"] == tr:
                        f.write(json.dumps(events[i]) + "\n")
            try:
                r1, _, rr = validate(run, one, "%s.one.%d" % (tag, tr), timeout=90, kind=kind, dev=dev)
                x = r1[tr]
                if not x["ok"]:
                    # positions are relative to the single-trace file: translate to the batch numbering
                    first = min(i for i in events if events[i]["tr"] == tr)
                    x["pos"] = x["pos"] + first - 1
                res[tr] = x
            except lib.Infra:
                res[tr] = {"ok": False, "undecided": True, "pos": 0, "event": {"ev": "(undecided: search did not finish)"}, "guards": []}
            os.remove(one)
        class _R:
            distinct = 0
            generated = 0
            out = ""
        return res, events, _R()
    if not r.lines("HW"):
        raise lib.Infra("%s run gave no verdict:\n" % KINDS[kind]["module"] + r.out[-3000:])
    accepted = {int(x) for x in r.lines("ACCEPTED")}
    hw = {}
    for h in r.lines("HW"):
        m = re.match(r"(\d+), (\d+), (.*)$", h)
        hw[int(m.group(1))] = int(m.group(2))
    fails = {}
    for g in r.lines("GUARD-FAILED"):
        m = re.match(r'"([^"]+)", "([^"]+)", (\d+)$', g)
        if m:
            fails.setdefault(int(m.group(3)), set()).add((m.group(1), m.group(2)))
    res = {}
    for tr in order:
        if tr in accepted:
            res[tr] = {"ok": True}
            continue
        pos = hw.get(tr, 0)
        ev = events.get(pos, {})
        tags = fails.get(pos, set())
        res[tr] = {"ok": False, "pos": pos, "event": ev, "guards": sorted(tags)}
    run.add(states=r.distinct, transitions=r.generated)
    return res, events, r


def trace_of(events, tr):
    return [e for e in events.values() if e["tr"] == tr]


def check_family(run, prop, scripts, tag, also=(), kind="broker", known=None, relaxed=None):
    """Drive + validate the scripts; re-drive rejected ones slowly; report violations tagged with `prop`.
    Returns (accepted_count, rejected list)."""
    tfile, crashes = run_scripts(run, scripts, tag, kind=kind)
    byid = {s["id"]: s for s in scripts}
    for c in crashes:
        s = byid.get(c["script"])
        if prop in ("C14", "C19") or "C14" in also:
            run.violation("the %s %s while running scenario %s" % ("broker process" if kind == "broker" else "driver process (gomqtt code under test)",
                                                                  "panicked" if c["kind"] == "panic" else "hung", c["script"]),
                          files={"script.json": s or {}, "stderr.txt": c["stderr"]})
        else:
            run.note("driver %s in scenario %s (reported by the C14 check)" % (c["kind"], c["script"]))
    res, events, r = validate(run, tfile, tag, kind=kind)
    rejected = [tr for tr, x in res.items() if not x["ok"]]
    final = dict(res)
    if rejected:
        # verdicts only from reproducible real-code behaviour: run the rejected scenarios again, slowly
        again = [byid[tr] for tr in rejected if tr in byid]
        t2, cr2 = run_scripts(run, again, tag + ".slow", slow=6, kind=kind)
        res2, events2, r2 = validate(run, t2, tag + ".slow", kind=kind)
        # known findings: a trace rejected by the strict specification but accepted with exactly the listed deviation enabled
        still = [tr for tr in rejected if tr in res2 and not res2[tr]["ok"]]
        if still and known:
            for key, text in known.items():
                res3, _, _ = validate(run, t2, tag + ".dev", kind=kind, dev=(key,))
                for tr in still:
                    if tr in res3 and res3[tr]["ok"]:
                        run.known(key, text)
                        res2[tr] = {"ok": True, "known": key}
        # property-preserving relaxations of the specification (shown by model checking to keep every property): a trace that
        # only the strict model rejects differs in discipline, not in anything the property states
        still = [tr for tr in rejected if tr in res2 and not res2[tr]["ok"]]
        if still and relaxed:
            res4, _, _ = validate(run, t2, tag + ".relaxed", kind=kind, dev=tuple(relaxed))
            for tr in still:
                if tr in res4 and res4[tr]["ok"]:
                    run.note("scenario %d is rejected by the strict specification at %s but accepted by the relaxed one (%s), which keeps every "
                             "property: not a violation" % (tr, res2[tr]["event"].get("ev"), "+".join(relaxed)))
                    res2[tr] = {"ok": True, "relaxed": True}
        flaky = []
        for tr in rejected:
            if tr in res2 and res2[tr].get("relaxed"):
                final[tr] = {"ok": True, "relaxed": True}
            elif tr in res2 and res2[tr].get("known"):
                final[tr] = {"ok": True, "known": res2[tr]["known"]}
            elif tr in res2 and res2[tr]["ok"]:
                flaky.append(tr)
                final[tr] = {"ok": True, "flaky": True}
            elif tr in res2:
                final[tr] = res2[tr]
                final[tr]["trace"] = trace_of(events2, tr)
        # a rejection that did not repeat when re-driven slowly: either the driver declared quiescence too early (not a verdict) or the
        # code behaves differently from run to run (a race, a random select).  A tagged guard that failed at a gomqtt event is tried
        # again several times at normal speed; it is reported only if the same guard fails again (observed twice on the real code).
        retry = [tr for tr in flaky if res[tr]["guards"] and res[tr]["event"].get("ev") not in HARNESS_EVENTS and res[tr]["event"].get("ev") not in ("settle", "probe")]
        if retry:
            copies = []
            for tr in retry[:12]:
                for k in range(4):
                    c = json.loads(json.dumps(byid[tr]))
                    c["id"] = 700000 + tr * 10 + k
                    copies.append(c)
            t3, _ = run_scripts(run, copies, tag + ".again", kind=kind)
            res5, events5, _ = validate(run, t3, tag + ".again", kind=kind)
            for tr in retry[:12]:
                names = {n for _, n in res[tr]["guards"]}
                for k in range(4):
                    x = res5.get(700000 + tr * 10 + k)
                    if x and not x["ok"] and names & {n for _, n in x["guards"]}:
                        final[tr] = x
                        final[tr]["trace"] = trace_of(events5, 700000 + tr * 10 + k)
                        final[tr]["repeated"] = True
                        break
        for tr in flaky:
            if final[tr].get("ok"):
                run.note("scenario %d rejected at %s on the first run but accepted when re-driven slowly (timing of the driver, not reported)"
                         % (tr, res[tr]["event"].get("ev")))
    nacc = sum(1 for x in final.values() if x["ok"])
    out = []
    undecided = [tr for tr, x in final.items() if x.get("undecided")]
    for tr, x in sorted(final.items()):
        if x["ok"]:
            continue
        if x.get("undecided"):
            run.note("scenario %d: the search over the specification did not finish within its time limit - undecided, not reported" % tr)
            continue
        ev = x["event"]
        tags = set()
        for g, _ in x["guards"]:
            tags |= set(g.split(","))
        names = [n for _, n in x["guards"]]
        if not tags:
            if ev.get("ev") in HARNESS_EVENTS:
                raise lib.Infra("trace %d rejected at harness event %s (position %d): modelling/harness error, not a verdict about gomqtt\n%s"
                                % (tr, ev.get("ev"), x["pos"], json.dumps(ev)[:400]))
            tr_events = x.get("trace", trace_of(events, tr))
            before = [e2 for e2 in tr_events if e2.get("seq", 0) < ev.get("seq", 0)]
            fb = fallback(ev) if kind == "broker" else "C19" if kind == "conn" else fallback_client(ev, before)
            tags = {fb} if fb else set()
            names = ["(no action of the specification produces this event: %s)" % ev.get("ev")]
        x["tags"], x["names"] = sorted(tags), names
        out.append((tr, x))
        what = "scenario %d (%s): event %d %s rejected by the specification, guard %s" % (
            tr, byid.get(tr, {}).get("family"), x["pos"], json.dumps({k: v for k, v in ev.items() if k not in ("tr",)})[:260], ",".join(names))
        if prop in tags:
            run.violation(what, files={"script.json": byid.get(tr, {}), "trace.ndjson": "\n".join(json.dumps(e) for e in x.get("trace", trace_of(events, tr))),
                                       "verdict.json": {"pos": x["pos"], "event": ev, "guards": x["guards"]}})
        else:
            run.note("not attributed to %s (tags %s): %s" % (prop, sorted(tags), what[:300]))
    run.add(traces_validated_against_impl=nacc, evaluations=len(final))
    if undecided and not run.violations:
        raise lib.Infra("%d scenario(s) undecided (trace validation did not finish) and no decided violation" % len(undecided))
    return nacc, out, events, final


def sample_trace(events, tr, n=14):
    out = []
    for e in trace_of(events, tr)[:n]:
        out.append({k: v for k, v in e.items() if k not in ("tr",)})
    return out
