#!/bin/bash
# usage: tools/run_all.sh <tier> [seed] [ids...]  -- runs the registered checks one after the other, prints one line each
TIER=${1:-quick}; SEED=${2:-1}; shift; shift
cd /verif
IDS=${@:-C01 C02 C03 C04 C05 C06 C07 C08 C09 C10 C11 C12 C13 C14 C15 C16 C17 C18 C19 C20}
for p in $IDS; do
  s=$(date +%s); out=$(VERIF_SEED=$SEED ./check $p --tier $TIER 2>&1); rc=$?
  echo "$p tier=$TIER seed=$SEED rc=$rc $(( $(date +%s) - s ))s | $(echo "$out" | tail -1 | cut -c1-160)"
  echo "$out" | grep "^note:" | cut -c1-220 | head -5
done
