#!/bin/bash
# usage: tools/confirm_seed3.sh <Cxx> <pkgdir>   -- round-3 seeds: agent output /tmp/seed3/out/<Cxx>.{patch.diff,demo_test.go,notes.txt}
# rearranged into the layout tools/confirm_seed.sh expects, then confirmed and filed as /verif/seeded/<Cxx>s-1
set -u
P=$1; PKG=$2; O=/tmp/seed3/out
mkdir -p $O/$P/demo1
cp $O/$P.patch.diff $O/$P/patch1.diff
cp $O/$P.demo_test.go $O/$P/demo1/seed3_demo_test.go
{ echo "# $P round 3 / change 1"; echo; echo "## what it needs to manifest"; cat $O/$P.notes.txt; } > $O/$P/notes1.md
RX=$(grep -o '^func Test[A-Za-z0-9_]*' $O/$P.demo_test.go | sed 's/func //' | paste -sd'|')
SEEDROOT=/tmp/seed3 SEEDSUF=s exec /verif/tools/confirm_seed.sh $P 1 $PKG "^($RX)\$"
