#!/bin/sh
# Build the conformance harness against /repo's working tree, offline.
set -e
cd "$(dirname "$0")"
exec python3 tools/check.py --setup
