----------------------------- MODULE BrokerMC1 -----------------------------
EXTENDS BrokerMC
Msg(m, q) == [m |-> m, top |-> <<"a">>, q |-> q, ret |-> FALSE, plen |-> 1, psum |-> 1]
Will == [m |-> "w", top |-> <<"w">>, q |-> 0, ret |-> FALSE, plen |-> 1, psum |-> 2]
Connect(cid, clean, haswill) == [t |-> "CONNECT", cid |-> cid, clean |-> clean, haswill |-> haswill, will |-> IF haswill THEN Will ELSE NoMsg]
Pub(id, m, q) == [t |-> "PUBLISH", id |-> id, dup |-> FALSE, msg |-> Msg(m, q)]
PubR(id, m, q) == [t |-> "PUBLISH", id |-> id, dup |-> FALSE, msg |-> [Msg(m, q) EXCEPT !.ret = TRUE]]
Ping == [t |-> "PINGREQ"]
Rel(id) == [t |-> "PUBREL", id |-> id]
SubW(id) == [t |-> "SUBSCRIBE", id |-> id, subs |-> <<[f |-> <<"w">>, q |-> 0]>>]
Sub(id, q) == [t |-> "SUBSCRIBE", id |-> id, subs |-> <<[f |-> <<"a">>, q |-> q]>>]
Disc == [t |-> "DISCONNECT"]
CloseIt == [t |-> "CLOSE"]
MCScripts == @@SCRIPTS@@
MCOpenAfter == @@AFTER@@
MCView == <<link, up, down, cl, dq, ackq, ackdue, tok, pubctx, sess, retained, closing, ghost, peer, cuts>>
=============================================================================
