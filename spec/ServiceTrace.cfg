SPECIFICATION TSpec
CONSTANTS
  Report = TRUE
  Dev = {}
CONSTRAINT HW
POSTCONDITION PostReport
CHECK_DEADLOCK FALSE
