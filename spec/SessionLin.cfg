SPECIFICATION LSpec
CONSTANTS
  Ids = {0, 1}
  Mode = "store"
  MaxNext = 3
CONSTRAINT HW
POSTCONDITION Accepted
CHECK_DEADLOCK FALSE
