------------------------------- MODULE ConnMC -------------------------------
EXTENDS Conn
\* packets of two units; some have four
MCEnc(s, i) == IF @@BIG@@ THEN <<<<s, i, 1>>, <<s, i, 2>>, <<s, i, 3>>, <<s, i, 4>>>> ELSE <<<<s, i, 1>>, <<s, i, 2>>>>
MCSync(s, i) == @@SYNC@@
MCOracle(off, enc) == TRUE
MCFeed == <<@@FEED@@>>
MCView == <<svars, buf, werr, berr, tvars, kvars, lvars, cvars, rvars, carrier, accepted, done, d0>>
Bound == tpend <= 3
=============================================================================
