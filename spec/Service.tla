------------------------------- MODULE Service -------------------------------
(***************************************************************************)
(* Specification of client.Service (client/service.go) at the level of the *)
(* events the harness observes: API calls, dials, packets of the service's *)
(* connections, callbacks and future resolutions.  The client underneath   *)
(* is abstracted to its packet-level outcomes (Client.tla covers it).       *)
(* Properties (C17, and the service half of C15): commands are carried out  *)
(* first-in first-out; after every reconnect exactly the current set of     *)
(* subscriptions is re-established; futures resolve truthfully and survive  *)
(* reconnects; Stop returns, cancels everything pending when asked to, and  *)
(* allows a restart.                                                         *)
(***************************************************************************)
EXTENDS Integers, Sequences, FiniteSets, TLC

CONSTANTS Report, Dev

G(tag, name, cond) ==
  IF cond THEN TRUE
  ELSE (IF Report THEN PrintT(<<"GUARD-FAILED", tag, name, TLCGet(2)>>) ELSE TRUE) /\ FALSE

VARIABLES started,   \* Start called and not yet stopped
          cmds,      \* all commands issued so far, in order: [a, kind, arg, st, pid, fut, name]
          subsS,     \* the service's subscription table: set of [f, q]
          phase,     \* supervisor: "idle" | "dialing" | "connecting" | "connacked" | "online" | "resub" | "dispatch" | "failing" | "offline"
          resubId,   \* packet id of the resubscription in flight
          cfg,       \* [clean, validate, resub]
          calls,     \* API calls in progress: set of [a, m, arg]
          obs,       \* future resolutions observed before the name was bound
          acked      \* the current connection's CONNECT was accepted (CONNACK 0 processed)

vars == <<started, cmds, subsS, phase, resubId, cfg, calls, obs, acked>>
SeqSet(s) == {s[i] : i \in 1..Len(s)}
SameMsg(a, b) == a.m = b.m /\ a.top = b.top /\ a.plen = b.plen /\ a.psum = b.psum /\ a.q = b.q /\ a.ret = b.ret

Init == /\ started = FALSE /\ cmds = <<>> /\ subsS = {} /\ phase = "idle" /\ resubId = 0
        /\ cfg = [clean |-> FALSE, validate |-> TRUE, resub |-> TRUE, qs |-> 100] /\ calls = {} /\ obs = {} /\ acked = FALSE

Queued == {i \in 1..Len(cmds) : cmds[i].st = "queued"}
HeadQ == CHOOSE i \in Queued : \A j \in Queued : i <= j
SetCmd(i, r) == cmds' = [cmds EXCEPT ![i] = r]
\* command i is handed to the client under packet id pid: a reused id (clean session: the counter restarts) displaces the
\* older future still stored under it, which is cancelled
Dispatch(i, pid, st, fut) ==
  cmds' = [j \in 1..Len(cmds) |->
             IF j = i THEN [cmds[j] EXCEPT !.st = st, !.pid = pid, !.fut = fut]
             ELSE IF pid # 0 /\ cmds[j].pid = pid /\ cmds[j].st = "sent" THEN [cmds[j] EXCEPT !.st = "done", !.fut = IF @ = "pending" THEN "cancelled" ELSE @]
             ELSE cmds[j]]

\* the client obtained packet id `pid` for the command it is about to send and registered its future under it: an older future
\* still stored under the same id is displaced and cancelled - also when the send then fails
NextId(pid) ==
  /\ cmds' = [j \in 1..Len(cmds) |->
               IF pid # 0 /\ cmds[j].pid = pid /\ cmds[j].st = "sent" THEN [cmds[j] EXCEPT !.st = "done", !.fut = IF @ = "pending" THEN "cancelled" ELSE @]
               ELSE cmds[j]]
  /\ UNCHANGED <<started, subsS, phase, resubId, cfg, calls, obs, acked>>

\* topic strings of a SUBSCRIBE packet are logged as level sequences; commands carry plain strings: the harness logs both as given,
\* so a subscription is compared as [f |-> <levels or string>, q]
ApiCall(a, m, arg) ==
  /\ calls' = calls \cup {[a |-> a, m |-> m, arg |-> arg, enq |-> FALSE, fin |-> FALSE, res |-> FALSE]}
  /\ UNCHANGED <<started, cmds, subsS, phase, resubId, cfg, obs, acked>>

\* silent: the call got the service's mutex and put its command into the queue (some instant between call and return;
\* Stop holds the same mutex, so a command is queued either before Stop began or after it returned)
Enqueue(c) ==
  /\ c \in calls /\ ~c.enq /\ c.m \in {"publish", "subscribe", "unsubscribe"}
  /\ ~\E d \in calls : d.m = "stop" /\ d.enq /\ ~d.fin
  /\ calls' = (calls \ {c}) \cup {[c EXCEPT !.enq = TRUE]}
  /\ cmds' = Append(cmds, [a |-> c.a, kind |-> c.m, arg |-> c.arg, st |-> "queued", pid |-> 0, fut |-> "pending", name |-> ""])
  /\ UNCHANGED <<started, subsS, phase, resubId, cfg, obs, acked>>

\* silent: the command queue stayed full for QueueTimeout: the call gives up, its future is cancelled, the command is never carried out
GiveUp(c) ==
  /\ c \in calls /\ ~c.enq /\ c.m \in {"publish", "subscribe", "unsubscribe"}
  /\ Cardinality(Queued) >= cfg.qs
  /\ calls' = (calls \ {c}) \cup {[c EXCEPT !.enq = TRUE]}
  /\ cmds' = Append(cmds, [a |-> c.a, kind |-> c.m, arg |-> c.arg, st |-> "done", pid |-> 0, fut |-> "cancelled", name |-> ""])
  /\ UNCHANGED <<started, subsS, phase, resubId, cfg, obs, acked>>

\* silent: Stop acquired the mutex (from here until it is done no command can be queued)
StopBegins(c) ==
  /\ c \in calls /\ c.m = "stop" /\ ~c.enq
  /\ ~\E d \in calls : d.m = "stop" /\ d.enq /\ ~d.fin
  /\ calls' = (calls \ {c}) \cup {[c EXCEPT !.enq = TRUE]}
  /\ UNCHANGED <<started, cmds, subsS, phase, resubId, cfg, obs, acked>>

\* silent: Stop is done (supervisor ended, futures cleared if asked to) and releases the mutex; its return is logged some time later -
\* calls that were waiting for the mutex may be logged as returning before it
StopEnds(c) ==
  /\ c \in calls /\ c.m = "stop" /\ c.enq /\ ~c.fin
  /\ calls' = (calls \ {c}) \cup {[c EXCEPT !.fin = TRUE, !.res = started]}
  /\ started' = FALSE
  /\ phase' = "idle"
  \* Stop(true): everything still pending is cancelled, also what is still queued (the queue is drained)
  /\ cmds' = IF c.arg /\ started
             THEN [i \in 1..Len(cmds) |-> IF cmds[i].fut = "pending" THEN [cmds[i] EXCEPT !.fut = "cancelled", !.st = "done"] ELSE cmds[i]]
             ELSE cmds
  /\ UNCHANGED <<subsS, resubId, cfg, obs, acked>>

\* silent: Start takes effect (its return is logged some time later)
StartEffect(c) ==
  /\ c \in calls /\ c.m = "start" /\ ~c.fin
  /\ ~\E d \in calls : d.m = "stop" /\ d.enq /\ ~d.fin
  /\ calls' = (calls \ {c}) \cup {[c EXCEPT !.fin = TRUE, !.res = ~started]}
  /\ started' = TRUE
  /\ phase' = IF started THEN phase ELSE "idle"
  /\ UNCHANGED <<cmds, subsS, resubId, cfg, obs, acked>>

ApiRet(a, m, err, f) ==
  /\ \E c \in calls : c.a = a /\ c.m = m /\ calls' = calls \ {c} /\
       CASE m = "start" ->
              /\ c.fin
              /\ G("C17", "Restartable", (err = "") = c.res)
              /\ UNCHANGED <<started, phase, cmds, subsS, resubId>>
         [] m = "stop" ->
              /\ c.fin
              /\ (err = "") = c.res
              /\ UNCHANGED <<started, phase, cmds, subsS, resubId>>
         [] OTHER ->
              /\ c.enq
              /\ \E i \in 1..Len(cmds) : cmds[i].a = a /\
                   /\ \A o \in obs : o[1] = f => G("C17", "FutureResolvesTruthfully", cmds[i].fut = o[2])
                   /\ SetCmd(i, [cmds[i] EXCEPT !.name = f])
              /\ UNCHANGED <<started, subsS, phase, resubId>>
  /\ UNCHANGED <<cfg, obs, acked>>

Dial(err) ==
  /\ G("C17", "DialsOnlyWhileStarted", started \/ \E c \in calls : c.m \in {"stop", "start"})     \* (the supervisor may dial before Start has returned)
  /\ phase' = IF err = "" THEN "dialing" ELSE "offline"
  /\ acked' = FALSE
  /\ UNCHANGED <<started, cmds, subsS, resubId, cfg, calls, obs>>

SubsOf(pkt) == {[f |-> pkt.subs[i].f, q |-> pkt.subs[i].q] : i \in 1..Len(pkt.subs)}
ArgSubs(arg) == {[f |-> arg[i].f, q |-> arg[i].q] : i \in 1..Len(arg)}
Replace(S, new) == {x \in S : x.f \notin {y.f : y \in new}} \cup new

\* a packet written by the service's client
CSend(pkt, joined) ==   \* joined(p): the packet's subscriptions / topics with levels joined to strings (done by the trace module)
  /\ CASE pkt.t = "CONNECT" -> /\ phase' = "connecting" /\ G("C17", "CleanFlag", pkt.clean = cfg.clean) /\ UNCHANGED <<cmds, subsS, resubId>>
       [] pkt.t = "SUBSCRIBE" ->
            IF phase = "online" /\ cfg.resub /\ subsS # {}
            THEN \* the resubscription: exactly the current set, every time
                 /\ G("C17", "ResubscribeExact", joined = subsS)
                 /\ phase' = "resub" /\ resubId' = pkt.id /\ UNCHANGED subsS
                 /\ Dispatch(0, pkt.id, "", "")          \* (its packet id may displace an older future as well)
            ELSE /\ G("C17", "ResubscribeBeforeCommands", phase \in {"dispatch", "online", "failing"} /\ (phase = "online" => (~cfg.resub \/ subsS = {})))
                 /\ G("C15,C17", "CommandsFIFO", Queued # {} /\ cmds[HeadQ].kind = "subscribe" /\ ArgSubs(cmds[HeadQ].arg) = joined)
                 /\ Dispatch(HeadQ, pkt.id, "sent", cmds[HeadQ].fut)
                 /\ subsS' = Replace(subsS, joined)
                 /\ phase' = (IF phase = "failing" THEN "failing" ELSE "dispatch") /\ UNCHANGED resubId
       [] pkt.t = "UNSUBSCRIBE" ->
            /\ G("C17", "ResubscribeBeforeCommands", phase \in {"dispatch", "online", "failing"} /\ (phase = "online" => (~cfg.resub \/ subsS = {})))
            /\ G("C15,C17", "CommandsFIFO", Queued # {} /\ cmds[HeadQ].kind = "unsubscribe" /\ SeqSet(cmds[HeadQ].arg) = joined)
            /\ Dispatch(HeadQ, pkt.id, "sent", cmds[HeadQ].fut)
            /\ subsS' = {x \in subsS : x.f \notin joined}
            /\ phase' = (IF phase = "failing" THEN "failing" ELSE "dispatch") /\ UNCHANGED resubId
       [] pkt.t = "PUBLISH" /\ pkt.dup ->      \* retransmission by the client after a resume
            /\ G("C17", "ResendOnlyWhatIsInFlight", \E i \in 1..Len(cmds) : cmds[i].kind = "publish" /\ cmds[i].st # "queued" /\ SameMsg(cmds[i].arg, pkt.msg))
            /\ UNCHANGED <<cmds, subsS, phase, resubId>>
       [] pkt.t = "PUBLISH" /\ ~pkt.dup ->
            /\ G("C17", "ResubscribeBeforeCommands", phase \in {"dispatch", "online", "failing"} /\ (phase = "online" => (~cfg.resub \/ subsS = {})))
            /\ G("C15,C17", "CommandsFIFO", Queued # {} /\ cmds[HeadQ].kind = "publish" /\ SameMsg(cmds[HeadQ].arg, pkt.msg))
            \* a reused packet id (clean session: the counter restarts) displaces the older pending future, which is cancelled
            /\ Dispatch(HeadQ, pkt.id, IF pkt.msg.q = 0 THEN "done" ELSE "sent", IF pkt.msg.q = 0 THEN "completed" ELSE cmds[HeadQ].fut)
            /\ phase' = (IF phase = "failing" THEN "failing" ELSE "dispatch") /\ UNCHANGED <<subsS, resubId>>
       [] OTHER -> UNCHANGED <<cmds, subsS, phase, resubId>>      \* PUBREL, acknowledgements, DISCONNECT
  /\ UNCHANGED <<started, cfg, calls, obs, acked>>

\* a packet processed by the service's client
CRecv(pkt) ==
  /\ CASE pkt.t = "CONNACK" -> phase' = (IF pkt.rc = 0 THEN "connacked" ELSE "offline") /\ UNCHANGED <<cmds, resubId>>
       [] pkt.t = "SUBACK" /\ phase = "resub" /\ pkt.id = resubId ->
            phase' = (IF cfg.validate /\ 128 \in SeqSet(pkt.codes) THEN "failing" ELSE "dispatch") /\ resubId' = 0 /\ UNCHANGED cmds
       [] pkt.t \in {"SUBACK", "UNSUBACK", "PUBACK", "PUBCOMP"} ->
            LET want == CASE pkt.t = "SUBACK" -> "subscribe" [] pkt.t = "UNSUBACK" -> "unsubscribe" [] OTHER -> "publish"
                hit == {i \in 1..Len(cmds) : cmds[i].st = "sent" /\ cmds[i].pid = pkt.id /\ cmds[i].kind = want}
                failed == pkt.t = "SUBACK" /\ cfg.validate /\ 128 \in SeqSet(pkt.codes) IN
            /\ cmds' = [i \in 1..Len(cmds) |-> IF i \in hit THEN [cmds[i] EXCEPT !.st = "done", !.fut = IF @ = "pending" THEN (IF failed THEN "cancelled" ELSE "completed") ELSE @] ELSE cmds[i]]
            \* a rejected subscription makes the client give up the connection; until it has done so ("failing") the dispatcher may
            \* still hand it commands
            /\ phase' = IF failed /\ hit # {} THEN "failing" ELSE phase
            /\ UNCHANGED resubId
       [] OTHER -> UNCHANGED <<cmds, phase, resubId>>
  /\ acked' = (acked \/ (pkt.t = "CONNACK" /\ pkt.rc = 0))
  /\ UNCHANGED <<started, subsS, cfg, calls, obs>>

\* the dispatcher could not hand a command to the client (send failed / client already gone): the command's future is cancelled;
\* the subscription table was updated before the attempt
DispatchFail(sys) ==
  /\ IF sys \in {"Publish", "Subscribe", "Unsubscribe"}
     THEN LET want == CASE sys = "Publish" -> "publish" [] sys = "Subscribe" -> "subscribe" [] OTHER -> "unsubscribe" IN
          /\ G("C15,C17", "CommandsFIFO", Queued # {} /\ cmds[HeadQ].kind = want)
          /\ SetCmd(HeadQ, [cmds[HeadQ] EXCEPT !.st = "done", !.fut = "cancelled"])
          /\ subsS' = CASE want = "subscribe" -> Replace(subsS, ArgSubs(cmds[HeadQ].arg))
                         [] want = "unsubscribe" -> {x \in subsS : x.f \notin SeqSet(cmds[HeadQ].arg)}
                         [] OTHER -> subsS
          /\ phase' = "offline"
     ELSE UNCHANGED <<cmds, subsS>> /\ phase' = (IF sys \in {"Resubscribe", "Connect", "Callback"} THEN "offline" ELSE phase)
  /\ UNCHANGED <<started, resubId, cfg, calls, obs, acked>>

Online(resumed) ==
  /\ G("C17", "OnlineOnlyAfterConnack", acked)
  /\ phase' = IF phase = "connacked" THEN "online" ELSE phase       \* (the connection may already have been lost again)
  /\ UNCHANGED <<started, cmds, subsS, resubId, cfg, calls, obs, acked>>

Offline ==    \* offline callback, connection errors, closes
  /\ phase' = IF phase \in {"idle"} THEN phase ELSE "offline"
  /\ UNCHANGED <<started, cmds, subsS, resubId, cfg, calls, obs, acked>>

\* the session was reset (clean session): nothing of the old connection can be acknowledged any more
SessReset == UNCHANGED vars

FutDone(f, st) ==
  /\ IF \E i \in 1..Len(cmds) : cmds[i].name = f
     THEN (\E i \in 1..Len(cmds) : cmds[i].name = f /\ G("C17", "FutureResolvesTruthfully", cmds[i].fut = st)) /\ obs' = obs
     ELSE obs' = obs \cup {<<f, st>>}
  /\ UNCHANGED <<started, cmds, subsS, phase, resubId, cfg, calls, acked>>

\* what may still be unresolved: commands not yet carried out or awaiting an acknowledgement
Unresolved(pending) ==
  \A k \in 1..Len(pending) : \E i \in 1..Len(cmds) : cmds[i].name = pending[k] /\ cmds[i].fut = "pending"
AfterStop(pending, clear) ==
  /\ G("C17", "StopCancelsAllPending", clear => pending = <<>>)
  /\ G("C17", "FuturesSurviveOrResolve", Unresolved(pending))
Settled(pending, stuck) ==
  /\ G("C17", "StopAndEveryCallReturn", stuck = <<>>)
  /\ G("C17", "FuturesSurviveOrResolve", Unresolved(pending))
  \* while the service is online and idle every dispatched command has been sent
  /\ G("C15,C17", "OfflineCommandsCarriedOutOnceOnline", (started /\ phase = "dispatch") => Queued = {})
=============================================================================
