------------------------------- MODULE Broker -------------------------------
(***************************************************************************)
(* Implementation-shaped specification of the gomqtt broker                *)
(* (broker/client.go, broker/backend.go, broker/engine.go) at the          *)
(* granularity of the events the conformance harness can observe: one      *)
(* action per linearisation point (a packet crossing the harness-owned     *)
(* link, a Backend call/return, an Ack invocation, a session-store         *)
(* operation under the store's lock), plus the silent per-session fan-out  *)
(* step of MemoryBackend.Publish.                                           *)
(*                                                                         *)
(* The same actions are used                                                *)
(*   - by BrokerMC.tla: bounded exhaustive exploration with an explicit     *)
(*     environment (peers, link failures) and the properties as invariants *)
(*   - by BrokerTrace.tla: validation of traces recorded from the real     *)
(*     broker (every action takes the observed values as parameters).       *)
(*                                                                         *)
(* Every property condition is written G(tag, name, cond) so that one      *)
(* source serves design checking (G = cond) and trace attribution.          *)
(* Properties: C06 C07 C08 C11 C12 C13 C14 C15 C16 C20.                    *)
(***************************************************************************)
EXTENDS Integers, Sequences, FiniteSets, TLC, TopicMatch

CONSTANTS Conns,      \* connection instances ("k1", "k2", ...)
          SKeys,      \* session keys: "s:<client id>" (persistent) or "t:<conn>" (temporary)
          Report,     \* TRUE in trace validation: a failing tagged guard is printed (attribution)
          Checked     \* design checking: names of the guards whose failure is an error (TLC Assert) instead of a disabled step

\* Tagged guard: in design checking it is just its condition; in trace validation a failure is reported
\* with the property tag, the guard name and the position of the event being consumed (TLC register 2).
G(tag, name, cond) ==
  IF cond THEN TRUE
  ELSE IF name \in Checked THEN Assert(FALSE, <<"DESIGN-VIOLATION", tag, name>>)
  ELSE (IF Report THEN PrintT(<<"GUARD-FAILED", tag, name, TLCGet(2)>>) ELSE TRUE) /\ FALSE

VARIABLES link,    \* [Conns -> "none" | "up" | "pclosed" | "gclosed" | "dead"]
          up,      \* [Conns -> Seq(packet)]  peer -> broker, in flight
          down,    \* [Conns -> Seq(packet)]  broker -> peer, in flight
          cl,      \* [Conns -> client record] (processor state and connection facts)
          dq,      \* [Conns -> dequeuer record]
          ackq,    \* [Conns -> Seq(packet)]  the client's ack queue
          ackdue,  \* [Conns -> set of [m, pkt]] acks the backend may still invoke
          tok,     \* [Conns -> [p, s, d]] publish / subscribe / dequeue tokens
          pubctx,  \* [Conns -> publish in progress]
          sess,    \* [SKeys -> session record]
          retained,\* set of retained messages (one per topic)
          cfg,     \* broker configuration of this scenario
          closing, \* backend Close in progress / done
          ghost    \* history: [handed, acked, published] for the properties

vars == <<link, up, down, cl, dq, ackq, ackdue, tok, pubctx, sess, retained, cfg, closing, ghost>>

----------------------------------------------------------------------------
NoMsg == [m |-> "none", top |-> <<>>, q |-> 0, ret |-> FALSE, plen |-> 0, psum |-> 0]
NoPkt == [t |-> "none", id |-> 0]
Min(a, b) == IF a < b THEN a ELSE b
SeqSet(s) == {s[i] : i \in 1..Len(s)}
RECURSIVE RemoveAt(_, _)
RemoveFirst(s, P(_)) ==   \* drop the first element satisfying P
  LET idx == {i \in 1..Len(s) : P(s[i])} IN
  IF idx = {} THEN s ELSE LET k == CHOOSE i \in idx : \A j \in idx : i <= j IN SubSeq(s, 1, k - 1) \o SubSeq(s, k + 1, Len(s))
RemoveAt(s, k) == SubSeq(s, 1, k - 1) \o SubSeq(s, k + 1, Len(s))

Client0 == [pc |-> "off", pkt |-> NoPkt, cid |-> "", clean |-> FALSE, will |-> NoMsg, haswill |-> FALSE, sk |-> "",
            accepted |-> FALSE, authfail |-> FALSE, discon |-> FALSE, dying |-> FALSE, txerr |-> FALSE, offender |-> FALSE, beerr |-> FALSE,
            killed |-> FALSE, resumed |-> FALSE, resend |-> <<>>, replayed |-> {}, seenconnect |-> FALSE, connacks |-> 0, setups |-> 0, terms |-> 0, wills |-> 0, cleanup |-> "no", closed |-> FALSE,
            acker |-> NoPkt]
Dq0 == [pc |-> "off", msg |-> NoMsg, gs |-> {}, id |-> 0]
Ctx0 == [on |-> FALSE, msg |-> NoMsg, todo |-> {}, src |-> "", n |-> 0]
Sess0 == [exists |-> FALSE, temp |-> FALSE, cid |-> "", subs |-> {}, tq |-> <<>>, sq |-> <<>>, out |-> <<>>, inc |-> {}, next |-> 1, active |-> ""]

InitBase ==
  /\ link = [c \in Conns |-> "none"]
  /\ up = [c \in Conns |-> <<>>]
  /\ down = [c \in Conns |-> <<>>]
  /\ cl = [c \in Conns |-> Client0]
  /\ dq = [c \in Conns |-> Dq0]
  /\ ackq = [c \in Conns |-> <<>>]
  /\ ackdue = [c \in Conns |-> {}]
  /\ tok = [c \in Conns |-> [p |-> 0, s |-> 0, d |-> 0]]
  /\ pubctx = [c \in Conns |-> Ctx0]
  /\ sess = [k \in SKeys |-> Sess0]
  /\ retained = {}
  /\ closing = FALSE
  /\ ghost = [handed |-> <<>>, acked |-> {}, willpub |-> <<>>]
Init == InitBase /\ cfg = [window |-> 10, queue |-> 100, pubpar |-> 10, subpar |-> 10, auth |-> FALSE, ackmode |-> ""]

Config(window, queue, pubpar, subpar, auth, ackmode) ==
  /\ cfg' = [window |-> window, queue |-> queue, pubpar |-> pubpar, subpar |-> subpar, auth |-> auth, ackmode |-> ackmode]
  /\ UNCHANGED <<link, up, down, cl, dq, ackq, ackdue, tok, pubctx, sess, retained, closing, ghost>>

----------------------------------------------------------------------------
(* helpers *)
S(c) == sess[cl[c].sk]                       \* the session of an accepted connection
HasSess(c) == cl[c].sk # ""
Grants(s, top) == {x.q : x \in {y \in sess[s].subs : Matches(y.f, top)}}
IdSucc(n) == IF n = 65535 THEN 1 ELSE n + 1
OutIds(s) == {sess[s].out[i].id : i \in 1..Len(sess[s].out)}
IncIds(s) == {x.id : x \in sess[s].inc}
Connected(c) == cl[c].accepted /\ ~cl[c].dying /\ link[c] = "up"
SameMsg(a, b) == a.m = b.m /\ a.top = b.top /\ a.plen = b.plen /\ a.psum = b.psum
Count(seq, x) == Cardinality({i \in 1..Len(seq) : seq[i] = x})

SetCl(c, r) == cl' = [cl EXCEPT ![c] = r]

----------------------------------------------------------------------------
(* Environment: the scripted peer and the network *)

PeerOpen(c) ==
  /\ link[c] = "none"
  /\ link' = [link EXCEPT ![c] = "up"]
  /\ SetCl(c, [Client0 EXCEPT !.pc = "first"])
  /\ UNCHANGED <<up, down, dq, ackq, ackdue, tok, pubctx, sess, retained, cfg, closing, ghost>>

PeerSend(c, pkt) ==
  /\ link[c] = "up"
  /\ up' = [up EXCEPT ![c] = Append(@, pkt)]
  /\ UNCHANGED <<link, down, cl, dq, ackq, ackdue, tok, pubctx, sess, retained, cfg, closing, ghost>>

PeerRecv(c, pkt) ==
  /\ link[c] \in {"up", "gclosed", "pclosed"}       \* (the scripted peer's reader drains what was in flight when the peer closed)
  /\ down[c] # <<>>
  /\ G("C20", "PeerReceivesWhatWasSent", Head(down[c]) = pkt)
  /\ down' = [down EXCEPT ![c] = Tail(@)]
  /\ UNCHANGED <<link, up, cl, dq, ackq, ackdue, tok, pubctx, sess, retained, cfg, closing, ghost>>

PeerClose(c) ==
  /\ link[c] \in {"up", "gclosed"}
  /\ link' = [link EXCEPT ![c] = IF link[c] = "up" THEN "pclosed" ELSE "dead"]
  /\ IF link[c] = "up" THEN UNCHANGED <<up, down>>
     ELSE up' = [up EXCEPT ![c] = <<>>] /\ down' = [down EXCEPT ![c] = <<>>]
  /\ UNCHANGED <<cl, dq, ackq, ackdue, tok, pubctx, sess, retained, cfg, closing, ghost>>

Cut(c) ==
  /\ link[c] # "none"
  /\ link' = [link EXCEPT ![c] = "dead"]
  /\ up' = [up EXCEPT ![c] = <<>>]
  /\ down' = [down EXCEPT ![c] = <<>>]
  /\ UNCHANGED <<cl, dq, ackq, ackdue, tok, pubctx, sess, retained, cfg, closing, ghost>>

PeerEOF(c) ==    \* the scripted peer's reader saw the end of the stream
  /\ link[c] \in {"gclosed", "dead", "pclosed"}
  /\ UNCHANGED vars

----------------------------------------------------------------------------
(* Connection-level steps of the broker side *)

\* conn.Send succeeded: the packet is on the wire (logged before it becomes visible to the peer)
Wire(c, pkt) == link[c] = "up" /\ down' = [down EXCEPT ![c] = Append(@, pkt)]

\* conn.Send / conn.Receive failed: the transport closes the carrier
GClose(c) == link' = [link EXCEPT ![c] = CASE link[c] = "up" -> "gclosed" [] link[c] = "pclosed" -> "dead" [] OTHER -> link[c]]

BRecvErr(c, err) ==
  /\ cl[c].pc \in {"first", "idle"}
  /\ CASE err = "EOF" -> link[c] = "pclosed" /\ up[c] = <<>>
       [] err = "timeout" -> link[c] = "up" /\ up[c] = <<>>
       [] OTHER -> link[c] \in {"gclosed", "dead"}
  /\ GClose(c)
  /\ SetCl(c, [cl[c] EXCEPT !.txerr = TRUE, !.pc = "dead"])
  /\ UNCHANGED <<up, down, dq, ackq, ackdue, tok, pubctx, sess, retained, cfg, closing, ghost>>

\* Backend.Log with an error class: die() of some goroutine of this client
Die(c, class, err) ==
  /\ G("C14", "DieNeedsCause",
       \/ class = "transport error" /\ cl[c].txerr
       \/ class = "client error" /\ (cl[c].offender \/ cl[c].authfail \/ err = "token timeout")
       \/ class = "backend error" /\ cl[c].beerr
       \/ class = "session error")
  /\ SetCl(c, [cl[c] EXCEPT !.dying = TRUE])
  /\ UNCHANGED <<link, up, down, dq, ackq, ackdue, tok, pubctx, sess, retained, cfg, closing, ghost>>

\* conn.Close() called by the broker
BClose(c) ==
  /\ G("C14", "OnlyOffenderClosed",
       \/ cl[c].dying \/ cl[c].discon \/ cl[c].killed \/ closing
       \/ \E c2 \in Conns \ {c} : cl[c2].pc = "setup" /\ cl[c2].cid = cl[c].cid /\ cl[c].cid # "")
  /\ GClose(c)
  /\ SetCl(c, [cl[c] EXCEPT !.dying = TRUE, !.killed = (@ \/ ~(cl[c].dying \/ cl[c].discon))])
  /\ UNCHANGED <<up, down, dq, ackq, ackdue, tok, pubctx, sess, retained, cfg, closing, ghost>>

----------------------------------------------------------------------------
(* Processor: CONNECT handling *)

BRecv(c, pkt) ==
  /\ link[c] \in {"up", "pclosed"}
  /\ up[c] # <<>> /\ Head(up[c]) = pkt
  /\ cl[c].pc \in {"first", "idle"}
  /\ up' = [up EXCEPT ![c] = Tail(@)]
  /\ LET first == cl[c].pc = "first"
         bad == \/ first /\ pkt.t # "CONNECT"                                   \* anything else first: close, no reply
                \/ ~first /\ pkt.t \in {"CONNECT", "CONNACK", "SUBACK", "UNSUBACK", "PINGRESP"}   \* second CONNECT / server-only packet
         disc == ~first /\ pkt.t = "DISCONNECT"
     IN SetCl(c, [cl[c] EXCEPT !.pc = IF bad \/ disc THEN "dead" ELSE IF first THEN "auth" ELSE "got",
                                !.pkt = pkt, !.offender = (@ \/ bad), !.discon = (@ \/ disc),
                                !.seenconnect = (@ \/ (first /\ ~bad)),
                                !.cid = IF first /\ ~bad THEN pkt.cid ELSE @, !.clean = IF first /\ ~bad THEN pkt.clean ELSE @])
  /\ UNCHANGED <<link, down, dq, ackq, ackdue, tok, pubctx, sess, retained, cfg, closing, ghost>>

AuthCall(c) ==
  /\ G("C20", "NoBackendCallBeforeConnect", cl[c].pc = "auth")
  /\ SetCl(c, [cl[c] EXCEPT !.pc = "authing"])
  /\ UNCHANGED <<link, up, down, dq, ackq, ackdue, tok, pubctx, sess, retained, cfg, closing, ghost>>

AuthRet(c, ok, err) ==
  /\ cl[c].pc = "authing"
  /\ SetCl(c, [cl[c] EXCEPT !.pc = IF err # "" THEN "dead" ELSE IF ok THEN "authed" ELSE "denied",
                             !.authfail = ~ok /\ err = "", !.beerr = (err # "")])
  /\ UNCHANGED <<link, up, down, dq, ackq, ackdue, tok, pubctx, sess, retained, cfg, closing, ghost>>

\* CONNACK "not authorized" and nothing more
SendConnackDenied(c, pkt) ==
  /\ cl[c].pc = "denied"
  /\ G("C20", "AuthFailureOnlyConnack5", pkt.t = "CONNACK" /\ pkt.rc = 5 /\ ~pkt.sp)
  /\ Wire(c, pkt)
  /\ SetCl(c, [cl[c] EXCEPT !.pc = "dead", !.connacks = @ + 1])
  /\ UNCHANGED <<link, up, dq, ackq, ackdue, tok, pubctx, sess, retained, cfg, closing, ghost>>

SetupCall(c, cid, clean) ==
  /\ G("C20", "SetupOnlyAfterAuth", cl[c].pc = "authed")
  /\ cid = cl[c].cid /\ clean = cl[c].clean
  /\ SetCl(c, [cl[c] EXCEPT !.pc = "setup"])
  /\ UNCHANGED <<link, up, down, dq, ackq, ackdue, tok, pubctx, sess, retained, cfg, closing, ghost>>

SetupFail(c, err) ==
  /\ cl[c].pc = "setup"
  \* Setup fails only when the backend fails (injected) or is closing: a takeover must complete - the previous holder of the
  \* client id has to let go in time (a kill timeout means it did not react to being closed)
  /\ G("C13,C14", "TakeoverCompletes", err # "kill timeout")
  /\ G("C14", "SetupFailsOnlyForCause", err \in {"injected backend failure", "closing", "kill timeout"})
  /\ SetCl(c, [cl[c] EXCEPT !.pc = "dead", !.beerr = TRUE])
  /\ UNCHANGED <<link, up, down, dq, ackq, ackdue, tok, pubctx, sess, retained, cfg, closing, ghost>>

\* Setup returned a session: the victim (if any) has been fully terminated
SetupRet(c, resumed, s) ==
  /\ cl[c].pc = "setup"
  /\ LET cid == cl[c].cid
         temp == cl[c].clean \/ cid = ""
         existed == ~temp /\ sess[s].exists
     IN
     \* the previous holder of the id has released the session: its will is published and Terminate has been entered
     \* (Terminate's effect and Setup are serialised by the backend's lock; the return of Terminate is logged outside it)
     /\ G("C13", "AtMostOneActivePerId",
          cid # "" => \A c2 \in Conns \ {c} : (cl[c2].accepted /\ cl[c2].cid = cid) => cl[c2].cleanup \in {"term", "termd", "done"})
     /\ G("C08", "ResumedIffStoredStateExists", resumed = existed)
     /\ sess' = [k \in SKeys |->
                  IF k = s THEN (IF existed THEN [sess[s] EXCEPT !.tq = <<>>, !.active = c]       \* reuse(): fresh temporary queue
                                 ELSE [Sess0 EXCEPT !.exists = TRUE, !.active = c, !.temp = temp, !.cid = cid])
                  ELSE IF temp /\ cid # "" /\ sess[k].exists /\ ~sess[k].temp /\ sess[k].cid = cid THEN Sess0   \* clean session discards stored state
                  ELSE sess[k]]
     /\ SetCl(c, [cl[c] EXCEPT !.pc = "connack", !.sk = s, !.accepted = TRUE, !.setups = @ + 1, !.resumed = resumed,
                                !.will = IF cl[c].pkt.haswill THEN cl[c].pkt.will ELSE NoMsg, !.haswill = cl[c].pkt.haswill])
     /\ tok' = [tok EXCEPT ![c] = [p |-> cfg.pubpar, s |-> cfg.subpar, d |-> cfg.window]]
  /\ UNCHANGED <<link, up, down, dq, ackq, ackdue, pubctx, retained, cfg, closing, ghost>>

SendConnack(c, pkt) ==
  /\ cl[c].pc = "connack"
  /\ G("C20", "AtMostOneConnack", cl[c].connacks = 0 /\ pkt.t = "CONNACK" /\ pkt.rc = 0)
  /\ G("C08", "SessionPresentIffResumed", pkt.sp = (cl[c].resumed /\ ~cl[c].clean))
  /\ Wire(c, pkt)
  /\ SetCl(c, [cl[c] EXCEPT !.pc = "resendlist", !.connacks = @ + 1])
  /\ UNCHANGED <<link, up, dq, ackq, ackdue, tok, pubctx, sess, retained, cfg, closing, ghost>>

\* AllPackets(Outgoing) for the resend phase: everything still recorded, in the order of original transmission
ResendList(c, list) ==
  /\ cl[c].pc = "resendlist"
  /\ LET out == S(c).out
         model == [i \in 1..Len(out) |-> [id |-> out[i].id, k |-> out[i].k]]
         got == [i \in 1..Len(list) |-> [id |-> list[i].id, k |-> IF list[i].t = "PUBREL" THEN "rel" ELSE "pub"]]
         \* original transmission order within each kind (publishes among themselves, releases among themselves)
         Proj(seq, k) == SelectSeq(seq, LAMBDA x : x.k = k)
     IN /\ G("C08", "ResendAllStored", SeqSet(got) = SeqSet(model) /\ Len(got) = Len(model))
        /\ G("C15", "ResendInOriginalOrder", Proj(got, "pub") = Proj(model, "pub") /\ Proj(got, "rel") = Proj(model, "rel"))
        /\ SetCl(c, [cl[c] EXCEPT !.pc = "resend", !.resend = got])
  /\ UNCHANGED <<link, up, down, dq, ackq, ackdue, tok, pubctx, sess, retained, cfg, closing, ghost>>

ResendOne(c, pkt) ==
  /\ cl[c].pc = "resend" /\ cl[c].resend # <<>>
  /\ LET e == Head(cl[c].resend)
         idx == CHOOSE i \in 1..Len(S(c).out) : S(c).out[i].id = e.id
         o == S(c).out[idx]
     IN /\ G("C08", "ResendMatchesStored", pkt.id = e.id /\ (IF e.k = "rel" THEN pkt.t = "PUBREL" ELSE pkt.t = "PUBLISH" /\ SameMsg(pkt.msg, o.msg) /\ pkt.msg.q = o.msg.q))
        /\ G("C08", "ResendFlaggedDuplicate", e.k = "pub" => pkt.dup)
  /\ Wire(c, pkt)
  /\ tok' = [tok EXCEPT ![c].d = IF @ > 0 THEN @ - 1 ELSE 0]
  /\ SetCl(c, [cl[c] EXCEPT !.resend = Tail(@)])
  /\ UNCHANGED <<link, up, dq, ackq, ackdue, pubctx, sess, retained, cfg, closing, ghost>>

Restore(c, err) ==
  /\ cl[c].pc = "resend" /\ cl[c].resend = <<>>
  /\ SetCl(c, [cl[c] EXCEPT !.pc = IF err = "" THEN "idle" ELSE "dead", !.beerr = (err # "")])
  /\ dq' = [dq EXCEPT ![c] = IF err = "" THEN [Dq0 EXCEPT !.pc = "wait"] ELSE @]
  /\ UNCHANGED <<link, up, down, ackq, ackdue, tok, pubctx, sess, retained, cfg, closing, ghost>>

----------------------------------------------------------------------------
(* Processor: packets of a connected client *)

GotPkt(c, t) == cl[c].pc = "got" /\ cl[c].pkt.t = t /\ ~cl[c].offender

SubCall(c, subs) ==
  /\ G("C20", "NoBackendCallBeforeConnect", cl[c].accepted)
  /\ GotPkt(c, "SUBSCRIBE") /\ subs = cl[c].pkt.subs
  /\ tok[c].s > 0
  /\ tok' = [tok EXCEPT ![c].s = @ - 1]
  /\ SetCl(c, [cl[c] EXCEPT !.pc = "sub"])
  /\ UNCHANGED <<link, up, down, dq, ackq, ackdue, pubctx, sess, retained, cfg, closing, ghost>>

\* silent: the subscription takes effect inside the call (MemoryBackend.Subscribe first waits for the backend's global lock:
\* publishes that are fanned out meanwhile do not see it yet)
SubApply(c) ==
  /\ cl[c].pc = "sub"
  /\ LET subs == cl[c].pkt.subs
         repl == {subs[i].f : i \in 1..Len(subs)} IN      \* a later entry for the same filter within one packet wins
     sess' = [sess EXCEPT ![cl[c].sk].subs = {y \in @ : y.f \notin repl} \cup
                 {subs[i] : i \in {j \in 1..Len(subs) : \A k \in (j + 1)..Len(subs) : subs[k].f # subs[j].f}}]
  /\ SetCl(c, [cl[c] EXCEPT !.pc = "sub.applied"])
  /\ UNCHANGED <<link, up, down, dq, ackq, ackdue, tok, pubctx, retained, cfg, closing, ghost>>

\* the backend acknowledges the subscription; retained messages matching each filter are queued (one copy per matching filter)
SubAck(c) ==
  /\ cl[c].pc = "sub.applied"
  /\ LET subs == cl[c].pkt.subs
         codes == [i \in 1..Len(subs) |-> subs[i].q]
     IN /\ \/ ackq' = [ackq EXCEPT ![c] = Append(@, [t |-> "SUBACK", id |-> cl[c].pkt.id, codes |-> codes])]
           \/ cl[c].dying /\ ackq' = ackq
        /\ SetCl(c, [cl[c] EXCEPT !.pc = "sub.acked", !.replayed = {}])
  /\ UNCHANGED <<link, up, down, dq, ackdue, tok, pubctx, sess, retained, cfg, closing, ghost>>

\* retained replay is enqueued (order free) between the ack and the return of Subscribe
SubReplay(c, i, m) ==
  /\ cl[c].pc = "sub.acked"
  /\ i \in 1..Len(cl[c].pkt.subs)
  /\ m \in retained /\ Matches(cl[c].pkt.subs[i].f, m.top)
  /\ <<i, m.m>> \notin cl[c].replayed
  /\ sess' = [sess EXCEPT ![cl[c].sk].tq = Append(@, [msg |-> m, gs |-> Grants(cl[c].sk, m.top), from |-> "", n |-> 0])]
  /\ SetCl(c, [cl[c] EXCEPT !.replayed = @ \cup {<<i, m.m>>}])
  /\ UNCHANGED <<link, up, down, dq, ackq, ackdue, tok, pubctx, retained, cfg, closing, ghost>>

SubRet(c, err) ==
  /\ cl[c].pc \in {"sub", "sub.applied", "sub.acked"}
  /\ G("C11", "SubscribeReplaysExactlyMatching",
       (err = "" /\ cl[c].pc = "sub.acked") =>
         \A i \in 1..Len(cl[c].pkt.subs) : \A m \in retained : Matches(cl[c].pkt.subs[i].f, m.top) => <<i, m.m>> \in cl[c].replayed)
  /\ SetCl(c, [cl[c] EXCEPT !.pc = IF err = "" THEN "idle" ELSE "dead", !.beerr = (err # ""), !.replayed = {}])
  /\ UNCHANGED <<link, up, down, dq, ackq, ackdue, tok, pubctx, sess, retained, cfg, closing, ghost>>

UnsubCall(c, topics) ==
  /\ G("C20", "NoBackendCallBeforeConnect", cl[c].accepted)
  /\ GotPkt(c, "UNSUBSCRIBE") /\ topics = cl[c].pkt.topics
  /\ tok[c].s > 0
  /\ tok' = [tok EXCEPT ![c].s = @ - 1]
  /\ SetCl(c, [cl[c] EXCEPT !.pc = "unsub"])
  /\ UNCHANGED <<link, up, down, dq, ackq, ackdue, pubctx, sess, retained, cfg, closing, ghost>>

\* silent: the subscriptions are removed inside the call
UnsubApply(c) ==
  /\ cl[c].pc = "unsub"
  /\ sess' = [sess EXCEPT ![cl[c].sk].subs = {y \in @ : y.f \notin SeqSet(cl[c].pkt.topics)}]
  /\ SetCl(c, [cl[c] EXCEPT !.pc = "unsub.applied"])
  /\ UNCHANGED <<link, up, down, dq, ackq, ackdue, tok, pubctx, retained, cfg, closing, ghost>>

UnsubAck(c) ==
  /\ cl[c].pc = "unsub.applied"
  /\ \/ ackq' = [ackq EXCEPT ![c] = Append(@, [t |-> "UNSUBACK", id |-> cl[c].pkt.id])]
     \/ cl[c].dying /\ ackq' = ackq
  /\ SetCl(c, [cl[c] EXCEPT !.pc = "unsub.acked"])
  /\ UNCHANGED <<link, up, down, dq, ackdue, tok, pubctx, sess, retained, cfg, closing, ghost>>

UnsubRet(c, err) ==
  /\ cl[c].pc \in {"unsub", "unsub.applied", "unsub.acked"}
  /\ SetCl(c, [cl[c] EXCEPT !.pc = IF err = "" THEN "idle" ELSE "dead", !.beerr = (err # "")])
  /\ UNCHANGED <<link, up, down, dq, ackq, ackdue, tok, pubctx, sess, retained, cfg, closing, ghost>>

\* --- publish: Backend.Publish is entered (QoS 0/1 PUBLISH, a released QoS 2 message, or the will from cleanup)
Retain(msg) ==
  IF ~msg.ret THEN retained
  ELSE IF msg.plen > 0 THEN {m \in retained : m.top # msg.top} \cup {msg}
  ELSE {m \in retained : m.top # msg.top}

PubCall(c, msg, hasack) ==
  /\ ~pubctx[c].on
  /\ \/ /\ GotPkt(c, "PUBLISH") /\ cl[c].pkt.msg.q \in {0, 1}
        /\ G("C20", "NoBackendCallBeforeConnect", cl[c].accepted)
        /\ G("C06", "PublishedIntact", SameMsg(msg, cl[c].pkt.msg) /\ msg.q = cl[c].pkt.msg.q /\ msg.ret = cl[c].pkt.msg.ret)
        /\ hasack = (msg.q = 1)
        /\ (msg.q = 1 => tok[c].p > 0)
        /\ tok' = [tok EXCEPT ![c].p = IF msg.q = 1 THEN @ - 1 ELSE @]
        /\ ackdue' = [ackdue EXCEPT ![c] = IF hasack THEN @ \cup {[m |-> msg.m, pkt |-> [t |-> "PUBACK", id |-> cl[c].pkt.id]]} ELSE @]
        /\ SetCl(c, [cl[c] EXCEPT !.pc = "pub"])
        /\ pubctx' = [pubctx EXCEPT ![c] = [on |-> TRUE, msg |-> [msg EXCEPT !.ret = FALSE], todo |-> {k \in SKeys : sess[k].exists}, src |-> "proc", n |-> Len(ghost.handed) + 1]]
        /\ ghost' = [ghost EXCEPT !.handed = Append(@, msg.m)]
     \/ /\ cl[c].pc = "rel.known"                                    \* PUBREL for a stored QoS 2 message
        /\ G("C07", "ReleasedMessageIsTheStoredOne", SameMsg(msg, cl[c].pkt.msg) /\ msg.q = 2)
        /\ hasack
        /\ tok[c].p >= 0
        /\ tok' = tok
        /\ ackdue' = [ackdue EXCEPT ![c] = @ \cup {[m |-> msg.m, pkt |-> [t |-> "PUBCOMP", id |-> cl[c].pkt.id]]}]
        /\ SetCl(c, [cl[c] EXCEPT !.pc = "pub"])
        /\ pubctx' = [pubctx EXCEPT ![c] = [on |-> TRUE, msg |-> [msg EXCEPT !.ret = FALSE], todo |-> {k \in SKeys : sess[k].exists}, src |-> "proc", n |-> Len(ghost.handed) + 1]]
        \* exactly once: the stored message is handed on again only while the first hand-over is in doubt (its ack was never invoked)
        /\ G("C07", "Q2HandedOnce", \A x \in S(c).inc : x.id = cl[c].pkt.id => (~x.handed \/ ~x.acked))
        /\ ghost' = [ghost EXCEPT !.handed = Append(@, msg.m)]
     \/ /\ cl[c].cleanup = "start"                                   \* the will, from cleanup
        /\ G(IF cl[c].authfail \/ ~cl[c].seenconnect THEN "C12,C20" ELSE "C12", "WillOnlyIfAcceptedAndNotDisconnected",
             cl[c].accepted /\ ~cl[c].discon /\ cl[c].haswill)
        /\ G("C12", "WillAtMostOnce", cl[c].wills = 0)
        /\ G("C12", "WillFieldsIntact", SameMsg(msg, cl[c].will) /\ msg.q = cl[c].will.q /\ msg.ret = cl[c].will.ret)
        /\ ~hasack
        /\ UNCHANGED <<tok, ackdue>>
        /\ SetCl(c, [cl[c] EXCEPT !.cleanup = "will", !.wills = @ + 1])
        /\ pubctx' = [pubctx EXCEPT ![c] = [on |-> TRUE, msg |-> [msg EXCEPT !.ret = FALSE], todo |-> {k \in SKeys : sess[k].exists}, src |-> "will", n |-> 0]]
        /\ ghost' = [ghost EXCEPT !.willpub = Append(@, c)]
  /\ retained' = Retain(msg)
  /\ sess' = IF cl[c].pc = "rel.known"
             THEN [sess EXCEPT ![cl[c].sk].inc = {IF x.id = cl[c].pkt.id THEN [x EXCEPT !.handed = TRUE] ELSE x : x \in @}]
             ELSE sess
  /\ UNCHANGED <<link, up, down, dq, ackq, cfg, closing>>

\* silent: MemoryBackend.Publish visits one session (any order)
FanOut(c, s, drop, keep) ==
  /\ pubctx[c].on /\ s \in pubctx[c].todo
  /\ LET msg == pubctx[c].msg
         gs == Grants(s, msg.top)
         q == IF msg.q = 0 THEN "tq" ELSE "sq"
         len == IF msg.q = 0 THEN Len(sess[s].tq) ELSE Len(sess[s].sq)
         act == sess[s].active
         entry == [msg |-> msg, gs |-> gs, from |-> IF pubctx[c].src = "will" THEN "" ELSE IF cl[c].cid = "" THEN c ELSE cl[c].cid, n |-> pubctx[c].n]
         mayDrop == \/ act = "" /\ len >= cfg.queue                       \* offline and full
                    \/ act # "" /\ act # c /\ cl[act].dying /\ len >= cfg.queue    \* going offline and full
     IN /\ pubctx' = [pubctx EXCEPT ![c].todo = @ \ {s}]
        /\ IF gs = {} \/ ~sess[s].exists THEN ~drop /\ sess' = sess
           ELSE IF drop THEN mayDrop /\ sess' = sess          \* (a drop with room in the queue shows up as an undelivered message)
           ELSE /\ (act = "" => len < cfg.queue)
                \* a QoS 0 message for an offline session may also be kept with the stored ones (MQTT leaves it open; `keep`); C15 then
                \* requires that it is not overtaken (NoOvertaking at DeqRet)
                /\ sess' = IF msg.q = 0 /\ ~(act = "" /\ keep) THEN [sess EXCEPT ![s].tq = Append(@, entry)] ELSE [sess EXCEPT ![s].sq = Append(@, entry)]
  /\ UNCHANGED <<link, up, down, cl, dq, ackq, ackdue, tok, retained, cfg, closing, ghost>>

\* the backend accepts responsibility: the acknowledgement is queued for the acker
PubAck(c, m) ==
  /\ \E a \in ackdue[c] : a.m = m /\
       /\ (~(pubctx[c].on /\ pubctx[c].msg.m = m) \/ pubctx[c].todo = {})     \* MemoryBackend acknowledges after the fan-out
       /\ ackdue' = [ackdue EXCEPT ![c] = @ \ {a}]
       /\ \/ ackq' = [ackq EXCEPT ![c] = Append(@, a.pkt)]
          \/ cl[c].dying /\ ackq' = ackq
       /\ ghost' = [ghost EXCEPT !.acked = @ \cup {[c |-> cl[c].sk, m |-> m]}]
       /\ sess' = IF a.pkt.t = "PUBCOMP" /\ cl[c].sk # ""
                  THEN [sess EXCEPT ![cl[c].sk].inc = {IF x.id = a.pkt.id THEN [x EXCEPT !.acked = TRUE] ELSE x : x \in @}]
                  ELSE sess
  /\ UNCHANGED <<link, up, down, cl, dq, tok, pubctx, retained, cfg, closing>>

PubRet(c, err) ==
  /\ pubctx[c].on
  /\ err = "" => pubctx[c].todo = {}
  /\ pubctx' = [pubctx EXCEPT ![c] = Ctx0]
  /\ SetCl(c, IF pubctx[c].src = "will" THEN [cl[c] EXCEPT !.cleanup = "willdone", !.beerr = (err # "")]
              ELSE [cl[c] EXCEPT !.pc = IF err = "" THEN "idle" ELSE "dead", !.beerr = (err # "")])
  /\ UNCHANGED <<link, up, down, dq, ackq, ackdue, tok, sess, retained, cfg, closing, ghost>>

\* --- inbound QoS 2: record, then PUBREC
IncSave(c, s, pkt) ==
  /\ GotPkt(c, "PUBLISH") /\ cl[c].pkt.msg.q = 2 /\ s = cl[c].sk
  /\ G("C20", "NoBackendCallBeforeConnect", cl[c].accepted)
  /\ tok[c].p > 0
  /\ tok' = [tok EXCEPT ![c].p = @ - 1]
  /\ pkt.id = cl[c].pkt.id /\ SameMsg(pkt.msg, cl[c].pkt.msg)
  /\ sess' = [sess EXCEPT ![s].inc = {x \in @ : x.id # pkt.id} \cup {[id |-> pkt.id, msg |-> pkt.msg, handed |-> FALSE, acked |-> FALSE]}]
  /\ SetCl(c, [cl[c] EXCEPT !.pc = "p2.saved"])
  /\ UNCHANGED <<link, up, down, dq, ackq, ackdue, pubctx, retained, cfg, closing, ghost>>

SendPubrec(c, pkt) ==
  /\ G("C07", "PubrecOnlyAfterIncomingSaved", cl[c].pc = "p2.saved")
  /\ pkt.t = "PUBREC" /\ pkt.id = cl[c].pkt.id
  /\ Wire(c, pkt)
  /\ SetCl(c, [cl[c] EXCEPT !.pc = "idle"])
  /\ UNCHANGED <<link, up, dq, ackq, ackdue, tok, pubctx, sess, retained, cfg, closing, ghost>>

IncLookup(c, s, id, found) ==
  /\ GotPkt(c, "PUBREL") /\ s = cl[c].sk /\ id = cl[c].pkt.id
  /\ G("C20", "NoBackendCallBeforeConnect", cl[c].accepted)
  /\ G("C07", "LookupSeesStore", (found.t = "PUBLISH") = (id \in IncIds(s)))
  /\ SetCl(c, IF found.t = "PUBLISH" THEN [cl[c] EXCEPT !.pc = "rel.known", !.pkt = [t |-> "PUBREL", id |-> id, msg |-> found.msg]]
              ELSE [cl[c] EXCEPT !.pc = "rel.unknown"])
  /\ UNCHANGED <<link, up, down, dq, ackq, ackdue, tok, pubctx, sess, retained, cfg, closing, ghost>>

\* PUBREL for an unknown id: answered at once
SendPubcompUnknown(c, pkt) ==
  /\ cl[c].pc = "rel.unknown"
  /\ pkt.t = "PUBCOMP" /\ pkt.id = cl[c].pkt.id
  /\ Wire(c, pkt)
  /\ SetCl(c, [cl[c] EXCEPT !.pc = "idle"])
  /\ UNCHANGED <<link, up, dq, ackq, ackdue, tok, pubctx, sess, retained, cfg, closing, ghost>>

\* deletion of a stored inbound QoS 2 message (by the ack path / the acker)
IncDelete(c, s, id) ==
  /\ s = cl[c].sk
  /\ G("C07", "IncomingKeptUntilHandedOn", \A x \in sess[s].inc : x.id = id => x.acked)
  /\ sess' = [sess EXCEPT ![s].inc = {x \in @ : x.id # id}]
  /\ UNCHANGED <<link, up, down, cl, dq, ackq, ackdue, tok, pubctx, retained, cfg, closing, ghost>>

\* --- acknowledgements from a subscriber
OutDelete(c, s, id) ==
  /\ \/ GotPkt(c, "PUBACK") \/ GotPkt(c, "PUBCOMP")
  /\ s = cl[c].sk /\ id = cl[c].pkt.id
  /\ sess' = [sess EXCEPT ![s].out = SelectSeq(@, LAMBDA x : x.id # id)]
  /\ tok' = [tok EXCEPT ![c].d = Min(@ + 1, cfg.window)]
  /\ SetCl(c, [cl[c] EXCEPT !.pc = "idle"])
  /\ UNCHANGED <<link, up, down, dq, ackq, ackdue, pubctx, retained, cfg, closing, ghost>>

OutSaveRel(c, s, pkt) ==
  /\ GotPkt(c, "PUBREC") /\ s = cl[c].sk /\ pkt.t = "PUBREL" /\ pkt.id = cl[c].pkt.id
  /\ sess' = [sess EXCEPT ![s].out =
                IF pkt.id \in OutIds(s) THEN [i \in 1..Len(@) |-> IF @[i].id = pkt.id THEN [@[i] EXCEPT !.k = "rel"] ELSE @[i]]
                ELSE Append(@, [id |-> pkt.id, k |-> "rel", msg |-> NoMsg])]
  /\ SetCl(c, [cl[c] EXCEPT !.pc = "rec.saved"])
  /\ UNCHANGED <<link, up, down, dq, ackq, ackdue, tok, pubctx, retained, cfg, closing, ghost>>

SendPubrel(c, pkt) ==
  /\ G("C08", "PubrelOnlyAfterRecorded", cl[c].pc = "rec.saved")
  /\ pkt.t = "PUBREL" /\ pkt.id = cl[c].pkt.id
  /\ Wire(c, pkt)
  /\ SetCl(c, [cl[c] EXCEPT !.pc = "idle"])
  /\ UNCHANGED <<link, up, dq, ackq, ackdue, tok, pubctx, sess, retained, cfg, closing, ghost>>

SendPingresp(c, pkt) ==
  /\ GotPkt(c, "PINGREQ") /\ pkt.t = "PINGRESP"
  /\ G("C20", "NoBackendCallBeforeConnect", cl[c].accepted)
  /\ Wire(c, pkt)
  /\ SetCl(c, [cl[c] EXCEPT !.pc = "idle"])
  /\ UNCHANGED <<link, up, dq, ackq, ackdue, tok, pubctx, sess, retained, cfg, closing, ghost>>

\* a send failed (the transport closes the carrier): processor, acker or dequeuer notices
SendErrProc(c) ==
  /\ link[c] # "up"
  /\ cl[c].pc \in {"connack", "denied", "resend", "p2.saved", "rel.unknown", "rec.saved", "got"}
  /\ GClose(c)
  /\ SetCl(c, [cl[c] EXCEPT !.pc = "dead", !.txerr = TRUE])
  /\ UNCHANGED <<up, down, dq, ackq, ackdue, tok, pubctx, sess, retained, cfg, closing, ghost>>

----------------------------------------------------------------------------
(* Acker *)

AckSend(c, pkt) ==
  /\ ackq[c] # <<>>
  /\ G("C20", "ResponseMatchesRequest", Head(ackq[c]) = pkt)
  /\ G("C07", "IncomingDeletedBeforePubcomp", pkt.t = "PUBCOMP" => pkt.id \notin IncIds(cl[c].sk))
  /\ Wire(c, pkt)
  /\ ackq' = [ackq EXCEPT ![c] = Tail(@)]
  /\ tok' = [tok EXCEPT ![c] = IF pkt.t \in {"SUBACK", "UNSUBACK"} THEN [@ EXCEPT !.s = Min(@ + 1, cfg.subpar)]
                                 ELSE [@ EXCEPT !.p = Min(@ + 1, cfg.pubpar)]]
  /\ UNCHANGED <<link, up, cl, dq, ackdue, pubctx, sess, retained, cfg, closing, ghost>>

SendErrAck(c, pkt) ==
  /\ link[c] # "up"
  /\ ackq[c] # <<>> /\ Head(ackq[c]) = pkt
  /\ ackq' = [ackq EXCEPT ![c] = Tail(@)]
  /\ GClose(c)
  /\ SetCl(c, [cl[c] EXCEPT !.txerr = TRUE])
  /\ UNCHANGED <<up, down, dq, ackdue, tok, pubctx, sess, retained, cfg, closing, ghost>>

----------------------------------------------------------------------------
(* Dequeuer *)

DeqCall(c) ==
  /\ dq[c].pc = "wait"
  /\ G("C16", "DequeueNeedsToken", tok[c].d > 0)
  /\ tok' = [tok EXCEPT ![c].d = @ - 1]
  /\ dq' = [dq EXCEPT ![c].pc = "calling"]
  /\ UNCHANGED <<link, up, down, cl, ackq, ackdue, pubctx, sess, retained, cfg, closing, ghost>>

\* Dequeue returned a message: head of the temporary or of the stored queue, QoS capped by a matching subscription
DeqRet(c, msg, fromStored) ==
  /\ dq[c].pc = "calling"
  /\ LET s == cl[c].sk
         queue == IF fromStored THEN sess[s].sq ELSE sess[s].tq
     IN /\ queue # <<>>
        /\ LET e == Head(queue)
               gs == e.gs \cup Grants(s, e.msg.top) IN
           \* (a retained replay is C11's business: "exactly the retained messages ... same QoS capping as live deliveries")
           /\ G(IF e.msg.ret THEN "C11" ELSE "C06", "ForwardIntact", SameMsg(msg, e.msg))
           /\ G("C11", "RetainFlag", msg.ret = e.msg.ret)
           /\ G(IF e.msg.ret THEN "C11" ELSE "C06", "DeqQoSCap", msg.q \in {Min(e.msg.q, g) : g \in gs})
           \* per-publisher order across the two queues: nothing published earlier by the same client at the same QoS class still waits in the other queue
           /\ LET other == IF fromStored THEN sess[s].tq ELSE sess[s].sq IN
              G("C15", "NoOvertaking", e.from = "" \/ \A i \in 1..Len(other) :
                   (other[i].from = e.from /\ (other[i].msg.q = 0) = (e.msg.q = 0)) => other[i].n > e.n)
           /\ dq' = [dq EXCEPT ![c] = [pc |-> IF msg.q = 0 THEN "saved" ELSE "have", msg |-> msg, gs |-> gs, id |-> 0]]
        /\ sess' = IF fromStored THEN [sess EXCEPT ![s].sq = Tail(@)] ELSE [sess EXCEPT ![s].tq = Tail(@)]
  /\ UNCHANGED <<link, up, down, cl, ackq, ackdue, tok, pubctx, retained, cfg, closing, ghost>>

DeqRetNil(c) ==      \* the client is closing
  /\ dq[c].pc = "calling"
  /\ G("C14", "DequeueEndsOnlyWhenClosing", cl[c].dying)
  /\ dq' = [dq EXCEPT ![c].pc = "exited"]
  /\ UNCHANGED <<link, up, down, cl, ackq, ackdue, tok, pubctx, sess, retained, cfg, closing, ghost>>

DeqFail(c) ==        \* Dequeue returned an error (injected)
  /\ dq[c].pc = "calling"
  /\ dq' = [dq EXCEPT ![c].pc = "exited"]
  /\ SetCl(c, [cl[c] EXCEPT !.beerr = TRUE])
  /\ UNCHANGED <<link, up, down, ackq, ackdue, tok, pubctx, sess, retained, cfg, closing, ghost>>

DeqNextID(c, s, id) ==
  /\ dq[c].pc = "have" /\ s = cl[c].sk
  /\ G("C08", "FreshIdNotInUse", id \notin OutIds(s))
  /\ G("C18", "IdFromCounter", id = sess[s].next)
  /\ sess' = [sess EXCEPT ![s].next = IdSucc(id)]
  /\ dq' = [dq EXCEPT ![c].pc = "ided", ![c].id = id]
  /\ UNCHANGED <<link, up, down, cl, ackq, ackdue, tok, pubctx, retained, cfg, closing, ghost>>

DeqSave(c, s, pkt) ==
  /\ dq[c].pc = "ided" /\ s = cl[c].sk
  /\ pkt.t = "PUBLISH" /\ pkt.id = dq[c].id /\ SameMsg(pkt.msg, dq[c].msg)
  /\ G("C16", "InflightLeWindow", Len(sess[s].out) < cfg.window)
  \* a new delivery stored under an id that is still in use would overwrite a message that was not acknowledged yet
  /\ G("C08", "StoredUntilAcked", pkt.id \notin OutIds(s))
  /\ sess' = [sess EXCEPT ![s].out = Append(SelectSeq(@, LAMBDA x : x.id # pkt.id), [id |-> pkt.id, k |-> "pub", msg |-> pkt.msg])]
  /\ dq' = [dq EXCEPT ![c].pc = "saved"]
  /\ UNCHANGED <<link, up, down, cl, ackq, ackdue, tok, pubctx, retained, cfg, closing, ghost>>

\* the session's packet-id counter is restarted (session.IDCounter.Reset; the pinned broker never does this to a session it keeps:
\* a clean-session connect gets a new session object).  Harmless while nothing is stored; with unacknowledged packets in the store
\* the next deliveries would reuse their ids and overwrite them.
SessCounterReset(s) ==
  /\ s \in SKeys
  /\ G("C08", "CounterRestartOnlyWithEmptyStore", Len(sess[s].out) = 0)
  /\ sess' = [sess EXCEPT ![s].next = 1]
  /\ UNCHANGED <<link, up, down, cl, dq, ackq, ackdue, tok, pubctx, retained, cfg, closing, ghost>>

DeqSend(c, pkt) ==
  /\ G("C08", "SaveBeforeSend", dq[c].pc = "saved")
  /\ dq[c].pc \in {"saved", "ided", "have"}
  /\ pkt.t = "PUBLISH"
  /\ G("C06", "ForwardIntact", SameMsg(pkt.msg, dq[c].msg) /\ pkt.msg.q = dq[c].msg.q /\ pkt.msg.ret = dq[c].msg.ret)
  /\ G("C08", "NewDeliveryNotDuplicate", ~pkt.dup /\ pkt.id = dq[c].id)
  /\ Wire(c, pkt)
  /\ tok' = [tok EXCEPT ![c].d = IF pkt.msg.q = 0 THEN Min(@ + 1, cfg.window) ELSE @]
  /\ dq' = [dq EXCEPT ![c] = [Dq0 EXCEPT !.pc = "wait"]]
  /\ UNCHANGED <<link, up, cl, ackq, ackdue, pubctx, sess, retained, cfg, closing, ghost>>

SendErrDeq(c, pkt) ==
  /\ link[c] # "up"
  /\ dq[c].pc \in {"saved", "ided", "have"} /\ pkt.t = "PUBLISH" /\ SameMsg(pkt.msg, dq[c].msg) /\ ~pkt.dup
  /\ G("C08", "SaveBeforeSend", dq[c].pc = "saved")
  /\ dq' = [dq EXCEPT ![c] = [Dq0 EXCEPT !.pc = "exited"]]
  /\ GClose(c)
  /\ SetCl(c, [cl[c] EXCEPT !.txerr = TRUE])
  /\ UNCHANGED <<up, down, ackq, ackdue, tok, pubctx, sess, retained, cfg, closing, ghost>>

----------------------------------------------------------------------------
(* Cleanup (after all goroutines of the client ended) *)

GoroutinesEnded(c) ==
  /\ cl[c].pc \in {"dead", "idle", "first", "got"} \/ (cl[c].dying /\ ~pubctx[c].on)
  /\ dq[c].pc \in {"off", "wait", "exited"}

CleanupStart(c) ==       \* silent: tomb.Wait returned, cleanup begins
  /\ cl[c].cleanup = "no"
  /\ cl[c].pc # "off"
  /\ cl[c].dying \/ cl[c].discon
  /\ GoroutinesEnded(c)
  /\ SetCl(c, [cl[c] EXCEPT !.cleanup = "start", !.dying = TRUE, !.pc = "dead"])
  /\ dq' = [dq EXCEPT ![c].pc = "exited"]
  /\ UNCHANGED <<link, up, down, ackq, ackdue, tok, pubctx, sess, retained, cfg, closing, ghost>>

TermCall(c) ==
  /\ cl[c].cleanup \in {"start", "willdone"}
  /\ G("C12", "WillPublishedIfOwed", (cl[c].accepted /\ ~cl[c].discon /\ cl[c].haswill) => cl[c].wills = 1)
  /\ G("C14", "TerminateAtMostOnce", cl[c].terms = 0)
  /\ G("C20", "NoTerminateWithoutAcceptedConnect", cl[c].seenconnect /\ ~cl[c].authfail)
  /\ SetCl(c, [cl[c] EXCEPT !.cleanup = "term"])
  /\ UNCHANGED <<link, up, down, dq, ackq, ackdue, tok, pubctx, sess, retained, cfg, closing, ghost>>

TermRet(c, err) ==
  /\ cl[c].cleanup = "term"
  /\ SetCl(c, [cl[c] EXCEPT !.cleanup = "termd", !.terms = @ + 1, !.beerr = (err # "")])
  /\ sess' = [k \in SKeys |->
               IF cl[c].sk # "" /\ k = cl[c].sk /\ sess[k].active = c
               THEN (IF sess[k].temp THEN Sess0 ELSE [sess[k] EXCEPT !.active = ""])
               ELSE sess[k]]
  /\ UNCHANGED <<link, up, down, dq, ackq, ackdue, tok, pubctx, retained, cfg, closing, ghost>>

Closed(c) ==
  /\ cl[c].cleanup \in {"start", "willdone", "termd"}
  /\ G("C14", "TerminateExactlyOncePerSetup", cl[c].setups > 0 => cl[c].terms = 1)
  /\ G("C12", "WillPublishedIfOwed", (cl[c].accepted /\ ~cl[c].discon /\ cl[c].haswill) => cl[c].wills = 1)
  /\ SetCl(c, [cl[c] EXCEPT !.cleanup = "done", !.closed = TRUE])
  /\ UNCHANGED <<link, up, down, dq, ackq, ackdue, tok, pubctx, sess, retained, cfg, closing, ghost>>

BackendCloseCall ==
  /\ closing' = TRUE
  /\ UNCHANGED <<link, up, down, cl, dq, ackq, ackdue, tok, pubctx, sess, retained, cfg, ghost>>

----------------------------------------------------------------------------
(* Settlement: evaluated when the driver ran the scenario to quiescence with the connections still up *)

SettledConn(c) ==
  /\ G("C14", "EveryEndedConnectionClosed", (link[c] \in {"gclosed", "dead", "pclosed"} /\ cl[c].pc # "off") => cl[c].closed)
  /\ Connected(c) =>
       /\ G("C20", "EveryRequestAnswered", up[c] = <<>> /\ ackq[c] = <<>> /\ cl[c].pc = "idle" /\ ~pubctx[c].on)
       /\ G("C07", "EveryAcceptedPublishAcknowledged", cfg.ackmode = "never" \/ ackdue[c] = {})
       /\ G("C06", "AllSentReceived", down[c] = <<>>)
       /\ G("C11", "RetainedReplayDelivered", \A i \in 1..Len(S(c).tq) : ~S(c).tq[i].msg.ret)
       /\ G("C06,C08,C16", "QueuedMessagesDelivered",
            \/ (S(c).tq = <<>> /\ S(c).sq = <<>> /\ dq[c].pc = "calling")
            \/ (tok[c].d = 0 /\ dq[c].pc = "wait"))             \* window exhausted: the peer withholds acknowledgements
       /\ G("C16", "SlotsNotLost", tok[c].d + Len(S(c).out) + (IF dq[c].pc = "calling" THEN 1 ELSE 0) >= cfg.window)
Settled == \A c \in Conns : SettledConn(c)

=============================================================================
