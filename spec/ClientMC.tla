------------------------------ MODULE ClientMC ------------------------------
(***************************************************************************)
(* Bounded exhaustive exploration of Client.tla with an explicit            *)
(* environment: an application that issues a script of API calls (one at a   *)
(* time), an MQTT-conformant scripted broker (CONNACK, SUBACK, PUBACK,       *)
(* PUBREC/PUBCOMP, its own PUBLISH/PUBREL towards the client), link cuts at  *)
(* any point, a new client object and reconnect after the old one ended.     *)
(* Event parameters are computed from the state; local guards are            *)
(* assumptions (trace validation establishes them for the code); the         *)
(* end-to-end properties of C09/C10 are invariants.                          *)
(***************************************************************************)
EXTENDS Client

CONSTANTS App,        \* sequence of API calls [m, arg]
          BrokerSends, \* sequence of packets the broker sends on its own (after CONNACK)
          Refuse,     \* set of callback invocation numbers that return an error
          MaxCuts

VARIABLES app,        \* index of the next API call
          bk,         \* broker peer: [reply, todo, got, acked, handed]
          ncb,        \* callback invocations so far
          cbs,        \* messages passed to the application callback (accepted ones): sequence of m
          cuts, nconn

mcvars == <<vars, app, bk, ncb, cbs, cuts, nconn>>
ConnName(n) == CASE n = 1 -> "k1" [] n = 2 -> "k2" [] OTHER -> "k3"

MCInit ==
  /\ Init
  /\ app = 1 /\ bk = [reply |-> <<>>, todo |-> BrokerSends, got |-> <<>>, sent |-> {}]
  /\ ncb = 0 /\ cbs = <<>> /\ cuts = 0 /\ nconn = 0

C == obj.conn
E(A) == A /\ UNCHANGED <<app, bk, ncb, cbs, cuts, nconn>>

(* ------------------------------ application ------------------------------ *)
AppCall ==
  /\ app <= Len(App) /\ inside = NoCall /\ waiting = {}
  /\ LET x == App[app] IN
     IF x.m = "newclient" THEN NewClient ELSE ApiCall(app, x.m, x.arg)
  /\ app' = app + 1 /\ UNCHANGED <<bk, ncb, cbs, cuts, nconn>>
FutName == IF inside.fut = 0 THEN "" ELSE "f" \o ToString(inside.fut)
AppRet ==
  /\ \/ /\ inside # NoCall /\ inside.pc \in {"done", "failed"}
        /\ ApiRet(inside.a, inside.m, IF inside.pc = "done" THEN "" ELSE "error", IF inside.pc = "done" THEN FutName ELSE "")
     \/ \E w \in waiting : w.refused /\ ApiRet(w.a, w.m, "error", "")
     \/ \E w \in waiting : w.left /\ ApiRet(w.a, w.m, IF w.pc = "done" THEN "" ELSE "error", IF w.pc = "done" /\ w.fut # 0 THEN "f" \o ToString(w.fut) ELSE "")
  /\ UNCHANGED <<app, bk, ncb, cbs, cuts, nconn>>

(* -------------------------------- broker -------------------------------- *)
ReplyTo(pkt) ==
  CASE pkt.t = "CONNECT" -> <<[t |-> "CONNACK", id |-> 0, rc |-> 0, sp |-> FALSE]>>
    [] pkt.t = "PUBLISH" /\ pkt.msg.q = 1 -> <<[t |-> "PUBACK", id |-> pkt.id]>>
    [] pkt.t = "PUBLISH" /\ pkt.msg.q = 2 -> <<[t |-> "PUBREC", id |-> pkt.id]>>
    [] pkt.t = "PUBREL" -> <<[t |-> "PUBCOMP", id |-> pkt.id]>>
    [] pkt.t = "SUBSCRIBE" -> <<[t |-> "SUBACK", id |-> pkt.id, codes |-> <<0>>]>>
    [] pkt.t = "UNSUBSCRIBE" -> <<[t |-> "UNSUBACK", id |-> pkt.id]>>
    [] OTHER -> <<>>
BkRecv ==
  /\ C # "" /\ up[C] # <<>>
  /\ LET pkt == Head(up[C]) IN
     /\ PeerRecv(C, pkt)
     /\ bk' = [bk EXCEPT !.reply = @ \o ReplyTo(pkt), !.got = Append(@, pkt)]
  /\ UNCHANGED <<app, ncb, cbs, cuts, nconn>>
Connacked == \E i \in 1..Len(bk.got) : bk.got[i].t = "CONNECT"
BkSend ==
  /\ C # "" /\ link[C] = "up"
  /\ \/ /\ bk.reply # <<>> /\ PeerSend(C, Head(bk.reply))
        /\ bk' = [bk EXCEPT !.reply = Tail(@), !.sent = @ \cup {Head(bk.reply)}]
     \/ /\ bk.reply = <<>> /\ bk.todo # <<>> /\ obj.state = "connected" /\ PeerSend(C, Head(bk.todo))
        /\ bk' = [bk EXCEPT !.todo = Tail(@), !.sent = @ \cup {Head(bk.todo)}]
  /\ UNCHANGED <<app, ncb, cbs, cuts, nconn>>
EnvCut ==
  /\ cuts < MaxCuts /\ C # "" /\ link[C] \in {"up", "gclosed", "pclosed"}
  /\ Cut(C) /\ cuts' = cuts + 1
  /\ bk' = [bk EXCEPT !.reply = <<>>]                    \* replies that could not be sent are gone with the connection
  /\ UNCHANGED <<app, ncb, cbs, nconn>>

(* -------------------------------- client -------------------------------- *)
ConnectPkt == [t |-> "CONNECT", id |-> 0, cid |-> "cid", clean |-> obj.clean, haswill |-> FALSE]
PubPkt == [t |-> "PUBLISH", id |-> inside.id, dup |-> FALSE, msg |-> inside.arg]
Stored(o, dup) == IF o.k = "rel" THEN [t |-> "PUBREL", id |-> o.id] ELSE [t |-> "PUBLISH", id |-> o.id, dup |-> dup, msg |-> o.msg]
FoundInc == IF proc.pkt.id \in IncIds THEN LET x == CHOOSE y \in sessC.inc : y.id = proc.pkt.id IN [t |-> "PUBLISH", id |-> x.id, msg |-> x.msg]
            ELSE [t |-> "none", id |-> 0]
CbMsg == IF proc.rel THEN (CHOOSE y \in sessC.inc : y.id = proc.pkt.id).msg ELSE proc.pkt.msg
ClientStep ==
  \/ E(\E w \in waiting : ~w.refused /\ ~w.left /\ ApiEnter(w))
  \/ E(ApiLeave)
  \/ /\ In("connect", "start") /\ nconn < 3 /\ Dial(ConnName(nconn + 1), "") /\ nconn' = nconn + 1
     /\ bk' = [bk EXCEPT !.reply = <<>>, !.got = <<>>] /\ UNCHANGED <<app, ncb, cbs, cuts>>
  \/ E(SessReset(""))
  \/ E(C # "" /\ SendConnect(C, ConnectPkt))
  \/ E(C # "" /\ SendConnectFail(C))
  \/ E(NextID(sessC.next))
  \/ E(In("publish", "p.save") /\ ApiSave(PubPkt, ""))
  \/ E(C # "" /\ In("publish", "send") /\ ApiSend(C, PubPkt))
  \/ E(C # "" /\ In("publish", "start") /\ inside.arg.q = 0 /\ ApiSend(C, [t |-> "PUBLISH", id |-> 0, dup |-> FALSE, msg |-> inside.arg]))
  \/ E(C # "" /\ In("subscribe", "send") /\ ApiSend(C, [t |-> "SUBSCRIBE", id |-> inside.id]))
  \/ E(C # "" /\ In("unsubscribe", "send") /\ ApiSend(C, [t |-> "UNSUBSCRIBE", id |-> inside.id]))
  \/ E(C # "" /\ ApiSendFail(C))
  \/ E(C # "" /\ ApiSendBuffered(C, NoPkt))
  \/ E(C # "" /\ ProcSendBuffered(C, NoPkt))
  \/ E(C # "" /\ SendDisconnect(C, [t |-> "DISCONNECT"]))
  \/ E(C # "" /\ SendDisconnectFail(C))
  \/ E(C # "" /\ CClose(C))
  \/ E(EndWaitDone)
  \/ E(CleanupEarly)
  \/ E(C # "" /\ down[C] # <<>> /\ CRecv(C, Head(down[C])))
  \/ E(C # "" /\ CRecvErr(C))
  \/ E(CbErr)
  \/ E(proc.pc = "resendlist" /\ ResendList([i \in 1..Len(sessC.out) |-> Stored(sessC.out[i], TRUE)], ""))
  \/ E(C # "" /\ proc.pc = "resend" /\ ResendOne(C, Stored(CHOOSE o \in SeqSet(sessC.out) : o.id = Head(proc.list).id, TRUE)))
  \/ E(proc.pc \in {"suback", "unsuback", "ack"} /\ OutDelete(proc.pkt.id, ""))
  \/ E(proc.pc = "rec" /\ OutSaveRel([t |-> "PUBREL", id |-> proc.pkt.id], ""))
  \/ /\ proc.pc = "cb"
     /\ CbCall(CbMsg, ncb + 1, IF (ncb + 1) \in Refuse THEN "refused" ELSE "")
     /\ ncb' = ncb + 1 /\ cbs' = IF (ncb + 1) \in Refuse THEN cbs ELSE Append(cbs, CbMsg.m)
     /\ UNCHANGED <<app, bk, cuts, nconn>>
  \/ E(proc.pc = "in.save" /\ IncSave([t |-> "PUBLISH", id |-> proc.pkt.id, msg |-> proc.pkt.msg], ""))
  \/ E(proc.pc = "rel" /\ IncLookup(proc.pkt.id, FoundInc, ""))
  \/ E(proc.pc = "rel.del" /\ IncDelete(proc.pkt.id, ""))
  \/ E(C # "" /\ proc.pc \in {"puback", "pubrec", "pubcomp", "pubrel"} /\
       ProcSend(C, [t |-> CASE proc.pc = "puback" -> "PUBACK" [] proc.pc = "pubrec" -> "PUBREC" [] proc.pc = "pubcomp" -> "PUBCOMP" [] OTHER -> "PUBREL", id |-> proc.pkt.id]))
  \/ E(C # "" /\ ProcSendFail(C))

MCNext == AppCall \/ AppRet \/ BkRecv \/ BkSend \/ EnvCut \/ ClientStep
MCSpec == MCInit /\ [][MCNext]_mcvars /\ WF_mcvars(AppCall \/ AppRet \/ BkRecv \/ BkSend \/ ClientStep)

(* ------------------------------ properties ------------------------------ *)
BkSentAck(kind, id) == \E p \in bk.sent : p.id = id /\ p.t = kind
\* C09: a future completes only after the acknowledgement it stands for was sent by the broker (and processed)
FutureTruth == \A f \in futs : (f.st = "completed" /\ f.id # 0) =>
  CASE f.kind = "publish" -> BkSentAck("PUBACK", f.id) \/ BkSentAck("PUBCOMP", f.id)
    [] f.kind = "subscribe" -> BkSentAck("SUBACK", f.id)
    [] f.kind = "unsubscribe" -> BkSentAck("UNSUBACK", f.id)
    [] OTHER -> TRUE
\* C09: a pending stored future's QoS>=1 publish is still recorded in the session (kept until acknowledged)
KeepUntilAck == \A f \in futs : (f.kind = "publish" /\ f.stored /\ f.st = "pending" /\ inside.fut # f.n) => f.id \in OutIds
\* C09: when the client has ended no future is left pending
NoPendingAfterEnd == (Ended /\ inside = NoCall /\ proc.pc \in {"off", "dead"}) => \A f \in futs : f.st # "pending" \/ ~f.stored
\* C10: every accepted callback of a QoS 2 message happens once per handshake: a conformant broker's message m reaches the application at most once
Q2Msgs == {BrokerSends[i].msg.m : i \in {j \in 1..Len(BrokerSends) : BrokerSends[j].t = "PUBLISH" /\ BrokerSends[j].msg.q = 2 /\ ~BrokerSends[j].dup}}
CallbackOnce == \A m \in Q2Msgs : Cardinality({i \in 1..Len(cbs) : cbs[i] = m}) <= 1
\* C10: an acknowledgement for an inbound message is on the wire only after an accepting callback (PUBACK) / after it was recorded (PUBREC)
Received(t, id) == \E i \in 1..Len(bk.got) : bk.got[i].t = t /\ bk.got[i].id = id
AckOnlyIfAccepted == \A i \in 1..Len(BrokerSends) :
  (BrokerSends[i].t = "PUBLISH" /\ BrokerSends[i].msg.q = 1 /\ Received("PUBACK", BrokerSends[i].id) /\ nconn = 1) => BrokerSends[i].msg.m \in SeqSet(cbs)
\* liveness: every call returns, every future resolves once the client has ended or the acknowledgements have flowed
Returns == <>[](app > Len(App) /\ inside = NoCall)
\* witnesses (must be violated)
W_NoCompleted == \A f \in futs : ~(f.st = "completed" /\ f.kind = "publish" /\ f.id # 0)
W_NoCancelled == \A f \in futs : f.st # "cancelled"
W_NoResend == proc.pc # "resend"
W_NoCallback == cbs = <<>>
W_NoRefusal == proc.pc # "die.close"
=============================================================================
