------------------------------ MODULE BrokerMC ------------------------------
(***************************************************************************)
(* Bounded exhaustive exploration of Broker.tla with an explicit            *)
(* environment: MQTT-conformant scripted peers (auto-acknowledging), link    *)
(* cuts at any point, reconnects.  Every parameter that an event supplies    *)
(* in trace validation is computed here from the state (the value the guards *)
(* demand), so the local guards act as assumptions - the conformance checks  *)
(* establish them for the code - and the END-TO-END properties are checked   *)
(* as invariants over all interleavings; the guards named in Checked raise   *)
(* an error when they fail.  Deviations re-order steps the way a wrong       *)
(* implementation would, to show that the properties are not vacuous.        *)
(***************************************************************************)
EXTENDS Broker

CONSTANTS Scripts,    \* [Conns -> sequence of packets the peer sends]
          OpenAfter,  \* [Conns -> set of connections that must have ended before this one opens]
          NeedSubs,   \* session keys that must hold a subscription before any peer publishes
          MaxCuts, CutConns, Window, QueueCap, Withhold,   \* Withhold: connections whose peer never acknowledges deliveries
          Dev

VARIABLES peer,       \* [Conns -> [todo, reply, got, opened]]
          cuts

mcvars == <<vars, peer, cuts>>

Peer0(c) == [todo |-> Scripts[c], reply |-> <<>>, got |-> <<>>, rx |-> <<>>, opened |-> FALSE]
MCInit ==
  /\ InitBase
  /\ cfg = [window |-> Window, queue |-> QueueCap, pubpar |-> 10, subpar |-> 10, auth |-> TRUE, ackmode |-> ""]
  /\ peer = [c \in Conns |-> Peer0(c)]
  /\ cuts = 0

Ended(c) == peer[c].opened /\ link[c] \in {"dead", "pclosed", "gclosed"} /\ cl[c].closed
KeyOf(c) == IF cl[c].clean \/ cl[c].cid = "" THEN "t:" \o c ELSE "s:" \o cl[c].cid

(* ------------------------------ environment ------------------------------ *)
EnvOpen(c) ==
  /\ ~peer[c].opened /\ \A d \in OpenAfter[c] : Ended(d)
  /\ PeerOpen(c)
  /\ peer' = [peer EXCEPT ![c].opened = TRUE] /\ UNCHANGED cuts
EnvSend(c) ==
  /\ link[c] = "up"
  /\ \/ /\ peer[c].reply # <<>>
        /\ PeerSend(c, Head(peer[c].reply))
        /\ peer' = [peer EXCEPT ![c].reply = Tail(@)]
     \/ /\ peer[c].reply = <<>> /\ peer[c].todo # <<>> /\ Head(peer[c].todo).t # "CLOSE"
        /\ Head(peer[c].todo).t = "PUBLISH" => \A k \in NeedSubs : sess[k].subs # {}
        /\ PeerSend(c, Head(peer[c].todo))
        /\ peer' = [peer EXCEPT ![c].todo = Tail(@)]
  /\ UNCHANGED cuts
EnvClose(c) ==
  /\ peer[c].todo # <<>> /\ Head(peer[c].todo).t = "CLOSE" /\ peer[c].reply = <<>>
  /\ PeerClose(c)
  /\ peer' = [peer EXCEPT ![c].todo = Tail(@)] /\ UNCHANGED cuts
\* a conformant receiver: PUBACK / PUBREC / PUBCOMP for deliveries, PUBREL for its own QoS 2 publishes
ReplyTo(c, pkt) ==
  IF pkt.t = "PUBLISH" /\ pkt.msg.q = 1 /\ c \notin Withhold THEN <<[t |-> "PUBACK", id |-> pkt.id]>>
  ELSE IF pkt.t = "PUBLISH" /\ pkt.msg.q = 2 /\ c \notin Withhold THEN <<[t |-> "PUBREC", id |-> pkt.id]>>
  ELSE IF pkt.t = "PUBREL" THEN <<[t |-> "PUBCOMP", id |-> pkt.id]>>
  ELSE IF pkt.t = "PUBREC" THEN <<[t |-> "PUBREL", id |-> pkt.id]>>
  ELSE <<>>
EnvRecv(c) ==
  /\ down[c] # <<>>
  /\ LET pkt == Head(down[c]) IN
     /\ PeerRecv(c, pkt)
     /\ peer' = [peer EXCEPT ![c].reply = @ \o ReplyTo(c, pkt),
                             ![c].rx = Append(@, pkt.t),
                             ![c].got = IF pkt.t = "PUBLISH" THEN Append(@, [m |-> pkt.msg.m, q |-> pkt.msg.q, dup |-> pkt.dup, ret |-> pkt.msg.ret]) ELSE @]
  /\ UNCHANGED cuts
EnvCut(c) ==
  /\ cuts < MaxCuts /\ c \in CutConns /\ link[c] \in {"up", "pclosed", "gclosed"}
  /\ Cut(c) /\ cuts' = cuts + 1 /\ UNCHANGED peer

(* ------------------------------- broker ------------------------------- *)
B(A) == A /\ UNCHANGED <<peer, cuts>>
ConnackOf(c) == [t |-> "CONNACK", rc |-> 0, sp |-> (cl[c].resumed /\ ~cl[c].clean)]
StoredPkt(o, dup) == IF o.k = "rel" THEN [t |-> "PUBREL", id |-> o.id] ELSE [t |-> "PUBLISH", id |-> o.id, dup |-> dup, msg |-> o.msg]
DieClass(c) == IF cl[c].txerr THEN "transport error" ELSE IF cl[c].offender \/ cl[c].authfail THEN "client error" ELSE "backend error"
Victim(c) == \E c2 \in Conns \ {c} : cl[c2].pc = "setup" /\ cl[c2].cid = cl[c].cid /\ cl[c].cid # "" /\ cl[c].accepted /\ cl[c].cleanup = "no"
Found(c) == IF cl[c].pkt.id \in IncIds(cl[c].sk)
            THEN LET x == CHOOSE y \in S(c).inc : y.id = cl[c].pkt.id IN [t |-> "PUBLISH", id |-> x.id, msg |-> x.msg]
            ELSE [t |-> "none", id |-> 0]
AckFirst == "PubcompBeforeDelete" \in Dev
WillOwed(c) == cl[c].accepted /\ ~cl[c].discon /\ cl[c].haswill

BrokerStep(c) ==
  \/ cl[c].pc \in {"first", "idle"} /\ up[c] = <<>> /\ link[c] = "pclosed" /\ BRecvErr(c, "EOF")
  \/ cl[c].pc \in {"first", "idle"} /\ link[c] \in {"gclosed", "dead"} /\ BRecvErr(c, "closed")
  \/ ~cl[c].dying /\ cl[c].pc # "off" /\ (cl[c].txerr \/ cl[c].offender \/ cl[c].authfail \/ cl[c].beerr) /\ Die(c, DieClass(c), "")
  \/ link[c] \in {"up", "pclosed"} /\ cl[c].pc # "off" /\ ~cl[c].killed /\ (cl[c].dying \/ cl[c].discon \/ Victim(c)) /\ BClose(c)
  \/ up[c] # <<>> /\ BRecv(c, Head(up[c]))
  \/ cl[c].pc = "auth" /\ AuthCall(c)
  \/ AuthRet(c, cl[c].cid # "denied", "")
  \/ SendConnackDenied(c, [t |-> "CONNACK", rc |-> 5, sp |-> FALSE])
  \/ cl[c].pc = "authed" /\ SetupCall(c, cl[c].cid, cl[c].clean)
  \/ cl[c].pc = "setup" /\ SetupRet(c, ~(cl[c].clean \/ cl[c].cid = "") /\ sess[KeyOf(c)].exists, KeyOf(c))
  \/ cl[c].pc = "connack" /\ SendConnack(c, ConnackOf(c))
  \/ cl[c].pc = "resendlist" /\ ResendList(c, [i \in 1..Len(S(c).out) |-> StoredPkt(S(c).out[i], TRUE)])
  \/ /\ cl[c].pc = "resend" /\ cl[c].resend # <<>>
     /\ LET e == Head(cl[c].resend) IN ResendOne(c, StoredPkt(CHOOSE o \in SeqSet(S(c).out) : o.id = e.id, TRUE))
  \/ Restore(c, "")
  \/ GotPkt(c, "SUBSCRIBE") /\ SubCall(c, cl[c].pkt.subs)
  \/ SubApply(c) \/ UnsubApply(c)
  \/ SubAck(c)
  \/ cl[c].pc = "sub.acked" /\ \E i \in 1..Len(cl[c].pkt.subs) : \E m \in retained : SubReplay(c, i, m)
  \/ SubRet(c, "")
  \/ GotPkt(c, "UNSUBSCRIBE") /\ UnsubCall(c, cl[c].pkt.topics)
  \/ UnsubAck(c) \/ UnsubRet(c, "")
  \/ GotPkt(c, "PUBLISH") /\ cl[c].pkt.msg.q \in {0, 1} /\ PubCall(c, cl[c].pkt.msg, cl[c].pkt.msg.q = 1)
  \/ cl[c].pc = "rel.known" /\ PubCall(c, cl[c].pkt.msg, TRUE)
  \/ cl[c].cleanup = "start" /\ WillOwed(c) /\ PubCall(c, cl[c].will, FALSE)
  \/ \E s \in SKeys : \E drop, keep \in BOOLEAN : FanOut(c, s, drop, keep)
  \/ \E a \in ackdue[c] : PubAck(c, a.m)
  \/ /\ pubctx[c].on /\ \A a \in ackdue[c] : a.m # pubctx[c].msg.m         \* MemoryBackend: the ack is invoked before Publish returns,
     /\ AckFirst \/ ~HasSess(c) \/ \A x \in S(c).inc : ~x.acked              \* and the ack deletes the stored message before it queues PUBCOMP
     /\ PubRet(c, "")
  \/ GotPkt(c, "PUBLISH") /\ cl[c].pkt.msg.q = 2 /\ IncSave(c, cl[c].sk, [id |-> cl[c].pkt.id, msg |-> cl[c].pkt.msg])
  \/ cl[c].pc = "p2.saved" /\ SendPubrec(c, [t |-> "PUBREC", id |-> cl[c].pkt.id])
  \/ GotPkt(c, "PUBREL") /\ IncLookup(c, cl[c].sk, cl[c].pkt.id, Found(c))
  \/ SendPubcompUnknown(c, [t |-> "PUBCOMP", id |-> cl[c].pkt.id])
  \/ HasSess(c) /\ \E x \in S(c).inc : x.acked /\ (AckFirst => \A i \in 1..Len(ackq[c]) : ~(ackq[c][i].t = "PUBCOMP" /\ ackq[c][i].id = x.id)) /\ IncDelete(c, cl[c].sk, x.id)
  \/ (GotPkt(c, "PUBACK") \/ GotPkt(c, "PUBCOMP")) /\ OutDelete(c, cl[c].sk, cl[c].pkt.id)
  \/ GotPkt(c, "PUBREC") /\ OutSaveRel(c, cl[c].sk, [t |-> "PUBREL", id |-> cl[c].pkt.id])
  \/ cl[c].pc = "rec.saved" /\ SendPubrel(c, [t |-> "PUBREL", id |-> cl[c].pkt.id])
  \/ SendPingresp(c, [t |-> "PINGRESP"])
  \/ SendErrProc(c)
  \/ ackq[c] # <<>> /\ (AckFirst \/ Head(ackq[c]).t # "PUBCOMP" \/ Head(ackq[c]).id \notin IncIds(cl[c].sk)) /\ AckSend(c, Head(ackq[c]))
  \/ ackq[c] # <<>> /\ SendErrAck(c, Head(ackq[c]))
  \/ dq[c].pc = "wait" /\ tok[c].d > 0 /\ ~cl[c].dying /\ DeqCall(c)
  \/ /\ dq[c].pc = "calling" /\ ~cl[c].dying
     /\ \E st \in BOOLEAN :
          LET q == IF st THEN S(c).sq ELSE S(c).tq IN
          /\ q # <<>>
          /\ \E g \in (Head(q).gs \cup Grants(cl[c].sk, Head(q).msg.top)) : DeqRet(c, [Head(q).msg EXCEPT !.q = Min(@, g)], st)
  \/ dq[c].pc = "calling" /\ cl[c].dying /\ DeqRetNil(c)
  \/ dq[c].pc = "have" /\ DeqNextID(c, cl[c].sk, S(c).next)
  \/ dq[c].pc = "ided" /\ DeqSave(c, cl[c].sk, [t |-> "PUBLISH", id |-> dq[c].id, msg |-> dq[c].msg])
  \/ dq[c].pc = "saved" /\ DeqSend(c, [t |-> "PUBLISH", id |-> dq[c].id, dup |-> FALSE, msg |-> dq[c].msg])
  \/ dq[c].pc = "saved" /\ SendErrDeq(c, [t |-> "PUBLISH", id |-> dq[c].id, dup |-> FALSE, msg |-> dq[c].msg])
  \/ CleanupStart(c)
  \/ cl[c].setups > 0 /\ (cl[c].cleanup = "willdone" \/ (cl[c].cleanup = "start" /\ ~WillOwed(c))) /\ TermCall(c)
  \/ TermRet(c, "")
  \/ (cl[c].cleanup = "termd" \/ (cl[c].setups = 0 /\ cl[c].cleanup = "start")) /\ Closed(c)

MCNext ==
  \/ \E c \in Conns : EnvOpen(c) \/ EnvSend(c) \/ EnvRecv(c) \/ EnvClose(c) \/ EnvCut(c)
  \/ \E c \in Conns : B(BrokerStep(c))

MCSpec == MCInit /\ [][MCNext]_mcvars /\ WF_mcvars(\E c \in Conns : B(BrokerStep(c)) \/ EnvSend(c) \/ EnvRecv(c) \/ EnvClose(c) \/ EnvOpen(c))

(* ------------------------------ properties ------------------------------ *)
AllMsgs == UNION {{p.msg : p \in {Scripts[c][i] : i \in {j \in 1..Len(Scripts[c]) : Scripts[c][j].t = "PUBLISH"}}} : c \in Conns}
Handed(m) == Cardinality({i \in 1..Len(ghost.handed) : ghost.handed[i] = m})
\* C07: a QoS 2 message is handed to the backend exactly once (conformant publisher)
Q2Once == \A x \in AllMsgs : x.q = 2 => Handed(x.m) <= 1
\* C16: the inflight window is respected
InflightLeWindow == \A k \in SKeys : Len(sess[k].out) <= cfg.window
\* C12: at most one will per connection, none after DISCONNECT
WillOnce == \A c \in Conns : Cardinality({i \in 1..Len(ghost.willpub) : ghost.willpub[i] = c}) <= 1 /\ (cl[c].discon => c \notin SeqSet(ghost.willpub))
\* C13: one live holder per session
OneHolder == \A c1, c2 \in Conns : (c1 # c2 /\ cl[c1].accepted /\ cl[c2].accepted /\ cl[c1].cid = cl[c2].cid /\ cl[c1].cid # ""
                                      /\ cl[c1].pc # "setup" /\ cl[c2].pc # "setup")
                                     => (cl[c1].cleanup \in {"term", "termd", "done"} \/ cl[c2].cleanup \in {"term", "termd", "done"})
\* C06: at most one first (unflagged) copy of a message per session, whatever the connection it arrives on
Firsts == {<<c, i>> : c \in Conns, i \in 1..4} \cap {<<c, i>> \in Conns \X (1..4) : i <= Len(peer[c].got) /\ ~peer[c].got[i].dup /\ ~peer[c].got[i].ret}
NoDuplicateDelivery == \A a, b \in Firsts :
  (a # b /\ KeyOf(a[1]) = KeyOf(b[1]) /\ cl[a[1]].cid = cl[b[1]].cid /\ peer[a[1]].got[a[2]].m = peer[b[1]].got[b[2]].m) => Handed(peer[a[1]].got[a[2]].m) > 1
\* C15: messages of one publisher with the same delivery class arrive in the order published
PubIndex(m) == CHOOSE i \in 1..Len(ghost.handed) : ghost.handed[i] = m
OrderKept == \A c \in Conns : \A i, j \in 1..Len(peer[c].got) :
  (i < j /\ ~peer[c].got[i].dup /\ ~peer[c].got[j].dup /\ ~peer[c].got[i].ret /\ ~peer[c].got[j].ret /\ (peer[c].got[i].q = 0) = (peer[c].got[j].q = 0)
   /\ peer[c].got[i].m \in SeqSet(ghost.handed) /\ peer[c].got[j].m \in SeqSet(ghost.handed))
  => PubIndex(peer[c].got[i].m) <= PubIndex(peer[c].got[j].m)
\* C08: an acknowledged QoS>=1 message for a persistent subscription is held somewhere until the subscriber has it
Holds(k, m) ==
  \/ \E i \in 1..Len(sess[k].sq) : sess[k].sq[i].msg.m = m
  \/ \E i \in 1..Len(sess[k].tq) : sess[k].tq[i].msg.m = m
  \/ \E i \in 1..Len(sess[k].out) : sess[k].out[i].k = "pub" /\ sess[k].out[i].msg.m = m
  \/ \E c \in Conns : cl[c].sk = k /\ dq[c].pc \in {"have", "ided", "saved"} /\ dq[c].msg.m = m
ReceivedBy(k, m) == \E c \in Conns : peer[c].opened /\ cl[c].seenconnect /\ KeyOf(c) = k /\ \E i \in 1..Len(peer[c].got) : peer[c].got[i].m = m
Owed(k) == {x \in AllMsgs : x.q >= 1 /\ (\E a \in ghost.acked : a.m = x.m) /\ (\E y \in sess[k].subs : Matches(y.f, x.top) /\ y.q >= 1)}
NoLoss == \A k \in NeedSubs : sess[k].exists => \A x \in Owed(k) : Holds(k, x.m) \/ ReceivedBy(k, x.m)
\* liveness: a subscriber that stays connected gets everything owed to it
StaysConnected(k) == \E c \in Conns : Connected(c) /\ cl[c].sk = k /\ c \notin Withhold
Delivery == \A k \in NeedSubs : (<>[]StaysConnected(k)) => <>[](\A x \in Owed(k) : ReceivedBy(k, x.m))
\* C20: nothing is sent before an accepted CONNECT; a refused client gets CONNACK 5 and nothing else; CONNACK comes first
ConnackFirst == \A c \in Conns : peer[c].rx # <<>> => peer[c].rx[1] = "CONNACK"
NothingBeforeConnect == \A c \in Conns : ~cl[c].seenconnect => (peer[c].rx = <<>> /\ cl[c].setups = 0)
DeniedGetsOnlyConnack == \A c \in Conns : cl[c].authfail => (Len(peer[c].rx) <= 1 /\ cl[c].setups = 0 /\ ~cl[c].accepted /\ c \notin SeqSet(ghost.willpub))
\* C11: a retained message is replayed at most once per matching subscription of a SUBSCRIBE, flagged retained; live copies are not flagged
RetainedCopies(c, m) == Cardinality({i \in 1..Len(peer[c].got) : peer[c].got[i].m = m /\ peer[c].got[i].ret})
RetainedAtMostOncePerSubscribe == \A c \in Conns : \A x \in AllMsgs :
  RetainedCopies(c, x.m) <= Cardinality({i \in 1..Len(Scripts[c]) : Scripts[c][i].t = "SUBSCRIBE"})
LiveCopiesNotFlagged == \A c \in Conns : \A i \in 1..Len(peer[c].got) : peer[c].got[i].ret => \E x \in AllMsgs : x.m = peer[c].got[i].m /\ x.ret

\* witnesses: each of these must be VIOLATED in its configuration (the situation the property is about is reachable)
W_NothingOwed == \A k \in NeedSubs : Owed(k) = {}
W_WindowNeverFull == \A k \in SKeys : Len(sess[k].out) < cfg.window
W_NoWill == ghost.willpub = <<>>
W_NoTakeover == \A c1, c2 \in Conns : (c1 # c2 /\ cl[c1].accepted /\ cl[c2].pc = "setup") => cl[c1].cid # cl[c2].cid
W_NoResume == \A c \in Conns : ~cl[c].resumed
W_NoRedelivery == \A c \in Conns : \A i \in 1..Len(peer[c].got) : ~peer[c].got[i].dup
W_FewReceived == \A c \in Conns : Len(peer[c].got) < 2
W_NoKnownRelease == \A c \in Conns : cl[c].pc # "rel.known"
W_NoUnknownRelease == \A c \in Conns : cl[c].pc # "rel.unknown"
W_NoRetainedReplay == \A c \in Conns : \A i \in 1..Len(peer[c].got) : ~peer[c].got[i].ret
W_NoRefusal == \A c \in Conns : ~cl[c].authfail
W_NoOffender == \A c \in Conns : ~cl[c].offender
=============================================================================
