----------------------------- MODULE TopicMatch -----------------------------
(***************************************************************************)
(* Reference topic matcher, written from MQTT 3.1.1 section 4.7 (C04).     *)
(* A topic (name or filter) is a non-empty sequence of levels; a level is  *)
(* an opaque value compared for equality (a string in the enumerated       *)
(* universe, a sequence of bytes when judging recorded answers).            *)
(*   '+' matches exactly one level (also an empty one);                     *)
(*   a trailing '#' matches zero or more levels, including the parent;      *)
(*   everything else is compared byte-exactly; levels may be empty, so a   *)
(*   leading or trailing '/' is significant.                                *)
(***************************************************************************)
EXTENDS Naturals, Sequences, FiniteSets, TLC

RECURSIVE MatchesG(_, _, _, _)
MatchesG(f, n, one, some) ==
  IF f = <<>> THEN n = <<>>
  ELSE IF Head(f) = some THEN Len(f) = 1      \* '#' only as the last level (a filter with '#' elsewhere is invalid and matches nothing)
  ELSE IF n = <<>> THEN FALSE
  ELSE IF Head(f) = one THEN MatchesG(Tail(f), Tail(n), one, some)
  ELSE Head(f) = Head(n) /\ MatchesG(Tail(f), Tail(n), one, some)

\* levels as strings
Matches(f, n) == MatchesG(f, n, "+", "#")
\* levels as byte sequences
MatchesB(f, n) == MatchesG(f, n, <<43>>, <<35>>)

\* split a byte sequence at '/' (0x2F) into levels (byte sequences)
RECURSIVE LevelsFrom(_, _, _)
LevelsFrom(b, i, cur) ==
  IF i > Len(b) THEN <<cur>>
  ELSE IF b[i] = 47 THEN <<cur>> \o LevelsFrom(b, i + 1, <<>>)
  ELSE LevelsFrom(b, i + 1, Append(cur, b[i]))
Levels(b) == LevelsFrom(b, 1, <<>>)

\* syntactic validity over string levels
ValidFilter(f) ==
  /\ Len(f) >= 1
  /\ f # <<"">>
  /\ \A i \in 1..Len(f) : f[i] = "#" => i = Len(f)
ValidName(n) ==
  /\ Len(n) >= 1
  /\ n # <<"">>
  /\ \A i \in 1..Len(n) : n[i] \notin {"+", "#"}

\* all sequences of length 1..d over alphabet A
RECURSIVE SeqsUpTo(_, _)
SeqsOfLen(A, d) == [1..d -> A]
SeqsUpTo(A, d) == IF d = 0 THEN {} ELSE SeqsOfLen(A, d) \cup SeqsUpTo(A, d - 1)

\* sanity theorems about the reference itself (evaluated by TLC in the table run)
RefSanity(F, N) ==
  /\ \A n \in N : Matches(<<"#">>, n)
  /\ \A n \in N : Matches(n, n)
  /\ \A n \in N : Matches(Append(n, "#"), n)                        \* parent level
  /\ \A n \in N : ~Matches(Append(n, "+"), n)                       \* '+' needs a level
  /\ \A n \in N : Matches(Append(n, "+"), Append(n, ""))            \* an empty level is a level
  /\ \A f \in F, n \in N : (Matches(f, n) /\ f[Len(f)] # "#") => Len(f) = Len(n)
=============================================================================
