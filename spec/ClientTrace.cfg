SPECIFICATION TSpec
CONSTANTS
  Conns <- TraceConns
  Report = TRUE
  Dev = {}
CONSTRAINT HW
POSTCONDITION PostReport
CHECK_DEADLOCK FALSE
