----------------------------- MODULE ConnTrace -----------------------------
(* Trace validation of the real transport.BaseConn (over the harness carrier) against Conn.tla.        *)
(* Observable: calls and returns of Send/Receive/Close, every carrier write (attempted and accepted     *)
(* bytes), carrier close, carrier read.  Silent: lock acquisition, copies into the bufio buffer, timer  *)
(* callbacks that find nothing to do.  The recorded wire is used as a prophecy for the order in which   *)
(* concurrent senders entered the writer (Oracle), which keeps the search linear.                       *)
EXTENDS Conn, Json

Trace == ndJsonDeserialize("@@TRACE@@")
TraceNums == {Trace[i].tr : i \in 1..Len(Trace)}
EndIdx == [t \in TraceNums |-> CHOOSE i \in 1..Len(Trace) : Trace[i].tr = t /\ Trace[i].ev = "end"]
RECURSIVE CatAtt(_, _)
CatAtt(t, i) == IF i > Len(Trace) \/ Trace[i].tr # t THEN <<>>
                ELSE (IF Trace[i].ev = "cwrite" THEN Trace[i].att ELSE <<>>) \o CatAtt(t, i + 1)
StartIdx == [t \in TraceNums |-> CHOOSE i \in 1..Len(Trace) : Trace[i].tr = t /\ Trace[i].ev = "config"]
ExpectOf == [t \in TraceNums |-> CatAtt(t, StartIdx[t])]

NoEnc(s, i) == <<>>
NoSync(s, i) == FALSE
NoFeed == <<>>
VARIABLES l
trvars == <<vars, l>>
E == Trace[l]
IsEvent(e) == l <= Len(Trace) /\ Trace[l].ev = e /\ TLCSet(2, l) /\ l' = l + 1
NoChange == UNCHANGED vars
TInit == Init /\ l = 1

TrOracle(off, enc) ==
  LET e == ExpectOf[E.tr]
      n == IF Len(enc) < 16 THEN Len(enc) ELSE 16 IN
  \A j \in 1..n : IF off + j > Len(e) THEN TRUE ELSE e[off + j] = enc[j]

ResetAll(zero, fl) ==
  /\ mtx' = "none" /\ wmtx' = "none"
  /\ spc' = [s \in Senders |-> "idle"] /\ cur' = [s \in Senders |-> 1]
  /\ penc' = [s \in Senders |-> <<>>] /\ psync' = [s \in Senders |-> FALSE]
  /\ res' = [s \in Senders |-> "none"] /\ late' = [s \in Senders |-> [closed |-> FALSE, failed |-> FALSE]]
  /\ d0' = zero
  /\ buf' = <<>> /\ werr' = FALSE /\ berr' = FALSE /\ nacc' = 0
  /\ tset' = FALSE /\ tpend' = 0 /\ tpc' = "idle" /\ tfailed' = FALSE
  /\ wire' = <<>> /\ carrier' = "open" /\ fbudget' = Faults /\ wfail' = FALSE
  /\ cpc' = "idle" /\ cerr' = FALSE /\ ncloses' = 0 /\ accepted' = {} /\ done' = {}
  /\ rpc' = "idle" /\ rin' = 0 /\ rdel' = 0 /\ rerrp' = FALSE /\ net' = 0 /\ rclosed' = FALSE /\ nrecv' = 0 /\ flens' = fl /\ nfed' = 0
T_Config == l <= Len(Trace) /\ E.ev = "config" /\ TLCSet(2, l) /\ l' = l + 1 /\ ResetAll(E.delay_ms = 0, E.feed)

Failed == E.err # ""
T_Events ==
  \/ /\ IsEvent("api.call")
     /\ CASE E.op = "send" -> Call(E.g, E.enc, ~E.async)
          [] E.op = "close" -> CCall
          [] E.op = "receive" -> RCall
  \/ /\ IsEvent("api.ret")
     /\ CASE E.op = "send" -> /\ spc[E.g] = "ret"
                              /\ G("C19", IF late[E.g].closed \/ late[E.g].failed THEN "SendAfterCloseFails" ELSE "SendResult", (res[E.g] = "err") = Failed)
                              /\ Ret(E.g)
          [] E.op = "close" -> cpc = "ret" /\ CRet      \* (what Close returns is not part of the property: not compared with cerr)
          [] E.op = "receive" -> IF Failed THEN RRetErr ELSE ROk
  \/ /\ IsEvent("cwrite")
     /\ G("C19", "WireBytesExact", Len(E.att) <= Len(buf) /\ E.att = SubSeq(buf, 1, Len(E.att)))
     /\ \E who \in Writers : WriteSome(who, Len(E.att), ~Failed, Len(E.b))
  \/ /\ IsEvent("cclose")
     /\ IF E.first
        THEN \/ \E s \in Senders : SClose(s)        \* the call that actually closes the carrier
             \/ CClose(~Failed)
             \/ RFailClose
        ELSE \/ CClose(~Failed)                     \* Close() is a step of its own (its error matters)
             \/ NoChange                            \* a repeated carrier.Close() on an error path: no effect, not attributed
  \/ IsEvent("cread") /\ RRead(E.n, Failed)
  \/ IsEvent("cdeadline") /\ (IF rpc = "called" THEN RDropWhen(TRUE) ELSE NoChange)
  \/ IsEvent("recv.pkt") /\ G("C19", "ReceiverOrder", E.k = rdel) /\ NoChange
  \/ IsEvent("settle") /\ G("C19", "NoCallHangs", E.stuck = <<>>) /\ NoChange
  \/ IsEvent("end") /\ PrintT(<<"ACCEPTED", E.tr>>) /\ NoChange

RFailCloseAgain == carrier = "closed" /\ RFailClose
\* Sends that fail without touching the carrier (pending or sticky error) are interchangeable: they are taken in the order
\* of their returns (earliest deadline first - a canonical choice that loses no acceptable trace and keeps the search linear)
RECURSIVE CanonSender(_)
CanonSender(j) == IF j > Len(Trace) \/ Trace[j].tr # E.tr THEN "none"
                  ELSE IF Trace[j].ev = "api.ret" /\ Trace[j].op = "send" /\ spc[Trace[j].g] = "called" THEN Trace[j].g ELSE CanonSender(j + 1)
\* ... and so are sends whose bytes are never handed to the carrier at all (they stay in the buffer): nothing observes their order
Canonical(s) == (werr \/ berr \/ nacc >= Len(ExpectOf[E.tr])) => s = CanonSender(l)
\* Partial-order reduction: steps that are invisible and only finish what their thread has begun under a lock it holds
\* (copying into the buffer, leaving the writer, the unobservable repeated close) are left-movers: they are taken at once,
\* before anything else, one thread at a time.  Every acceptable trace stays acceptable; the search stays linear.
EagerSenders == {s \in Senders : spc[s] \in {"copy", "half"} \/ (spc[s] = "closing" /\ carrier = "closed")}
EagerOther == (cpc = "flush" /\ (berr \/ buf = <<>>)) \/ (tpc = "flush" /\ (berr \/ buf = <<>>)) \/ (rpc = "called" /\ rerrp /\ carrier = "closed")
EagerEnabled == EagerSenders # {} \/ EagerOther
T_Eager ==
  /\ l <= Len(Trace) /\ TLCSet(2, l) /\ UNCHANGED l
  /\ IF EagerSenders # {}
     THEN LET s == CHOOSE x \in EagerSenders : TRUE IN Append1(s) \/ Append2(s) \/ SClose(s)
     ELSE IF cpc = "flush" /\ (berr \/ buf = <<>>) THEN CFlushEnd
     ELSE IF tpc = "flush" /\ (berr \/ buf = <<>>) THEN TimerEnd
     ELSE RFailCloseAgain
T_Silent ==
  /\ l <= Len(Trace) /\ TLCSet(2, l) /\ UNCHANGED l
  /\ \/ \E s \in Senders : (Canonical(s) /\ Begin(s)) \/ WriteEnd(s)
     \/ TimerQuiet \/ TimerBegin \/ CBegin \/ RGot \/ RDrop


T_Skip == l <= Len(Trace) /\ E.ev # "config" /\ l' = EndIdx[E.tr] + 1 /\ ResetAll(FALSE, <<>>)
TNext == T_Config \/ (IF EagerEnabled THEN T_Eager ELSE (T_Events \/ T_Silent)) \/ T_Skip
TSpec == TInit /\ [][TNext]_trvars

ASSUME TLCSet(2, 0)
ASSUME \A t \in TraceNums : TLCSet(10 + t, 0)
HW == l > Len(Trace) \/ (IF l > TLCGet(10 + E.tr) THEN TLCSet(10 + E.tr, l) ELSE TRUE)
Brief(e) == IF "enc" \in DOMAIN e THEN [e EXCEPT !.enc = <<Len(e.enc)>>]
            ELSE IF "att" \in DOMAIN e THEN [e EXCEPT !.att = <<Len(e.att)>>, !.b = <<Len(e.b)>>] ELSE e
PostReport ==
  \A t \in TraceNums : PrintT(<<"HW", t, TLCGet(10 + t), IF TLCGet(10 + t) \in 1..Len(Trace) THEN ToJson(Brief(Trace[TLCGet(10 + t)])) ELSE "{}">>)
=============================================================================
