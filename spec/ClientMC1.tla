----------------------------- MODULE ClientMC1 -----------------------------
EXTENDS ClientMC
Msg(m, q) == [m |-> m, top |-> <<"a">>, q |-> q, ret |-> FALSE, plen |-> 1, psum |-> 1]
Call(m, arg) == [m |-> m, arg |-> arg]
BPub(id, m, q) == [t |-> "PUBLISH", id |-> id, dup |-> FALSE, msg |-> Msg(m, q)]
BRel(id) == [t |-> "PUBREL", id |-> id]
MCApp == @@APP@@
MCBroker == @@BROKER@@
=============================================================================
