---------------------------- MODULE ServiceTrace ----------------------------
(* Trace validation of the real client.Service against Service.tla. *)
EXTENDS Service, Json

Trace == ndJsonDeserialize("@@TRACE@@")
TraceNums == {Trace[i].tr : i \in 1..Len(Trace)}
EndIdx == [t \in TraceNums |-> CHOOSE i \in 1..Len(Trace) : Trace[i].tr = t /\ Trace[i].ev = "end"]
VARIABLES l
tvars == <<vars, l>>
E == Trace[l]
IsEvent(e) == l <= Len(Trace) /\ Trace[l].ev = e /\ TLCSet(2, l) /\ l' = l + 1
NoChange == UNCHANGED vars
TInit == Init /\ l = 1

ResetAll(clean, validate, resub, qs) ==
  /\ started' = FALSE /\ cmds' = <<>> /\ subsS' = {} /\ phase' = "idle" /\ resubId' = 0
  /\ cfg' = [clean |-> clean, validate |-> validate, resub |-> resub, qs |-> qs] /\ calls' = {} /\ obs' = {} /\ acked' = FALSE
T_Config == l <= Len(Trace) /\ E.ev = "config" /\ TLCSet(2, l) /\ l' = l + 1 /\ ResetAll(E.clean, E.validate, E.resub, E.qs)

\* topics are logged as level sequences in packets and as plain strings in API arguments: join levels with "/"
RECURSIVE Join(_)
Join(lv) == IF Len(lv) = 1 THEN lv[1] ELSE lv[1] \o "/" \o Join(Tail(lv))
Joined(pkt) == IF pkt.t = "SUBSCRIBE" THEN {[f |-> Join(pkt.subs[i].f), q |-> pkt.subs[i].q] : i \in 1..Len(pkt.subs)}
               ELSE IF pkt.t = "UNSUBSCRIBE" THEN {Join(pkt.topics[i]) : i \in 1..Len(pkt.topics)} ELSE {}
ApiArg == CASE E.m = "publish" -> E.msg [] E.m = "subscribe" -> E.subs [] E.m = "unsubscribe" -> E.topics [] E.m = "stop" -> E.clear [] OTHER -> 0

T_Events ==
  \/ IsEvent("api.call") /\ ApiCall(E.a, E.m, ApiArg)
  \/ IsEvent("api.ret") /\ ApiRet(E.a, E.m, E.err, E.fut)
  \/ IsEvent("api.panic") /\ G("C17", "NoCallPanics", FALSE) /\ NoChange
  \/ IsEvent("accessor.panic") /\ G("C17", "AccessorsTotal", FALSE) /\ NoChange
  \/ IsEvent("dial") /\ Dial(E.err)
  \/ IsEvent("csend") /\ CSend(E.pkt, Joined(E.pkt))
  \/ IsEvent("crecv") /\ CRecv(E.pkt)
  \/ IsEvent("svc.online") /\ Online(E.resumed)
  \/ IsEvent("svc.offline") /\ Offline
  \/ IsEvent("crecv_err") /\ Offline
  \/ IsEvent("cclose") /\ NoChange
  \/ IsEvent("csend_err") /\ NoChange
  \/ IsEvent("csend_buf") /\ NoChange
  \/ IsEvent("svc.error") /\ NoChange
  \/ IsEvent("svc.fail") /\ DispatchFail(E.sys)
  \/ IsEvent("svc.msg") /\ NoChange
  \/ IsEvent("sess.reset") /\ NoChange
  \/ IsEvent("sess.nextid") /\ NextId(E.id)
  \/ IsEvent("sess.save") /\ NoChange
  \/ IsEvent("sess.lookup") /\ NoChange
  \/ IsEvent("sess.delete") /\ NoChange
  \/ IsEvent("sess.all") /\ NoChange
  \/ IsEvent("cb.call") /\ NoChange
  \/ IsEvent("cb.err") /\ NoChange
  \/ IsEvent("fut.done") /\ FutDone(E.f, E.st)
  \/ IsEvent("psend") /\ NoChange
  \/ IsEvent("precv") /\ NoChange
  \/ IsEvent("pclose") /\ NoChange
  \/ IsEvent("cut") /\ NoChange
  \/ IsEvent("peof") /\ NoChange
  \/ IsEvent("pnote") /\ NoChange
  \/ IsEvent("probe") /\ AfterStop(E.pending, E.clear) /\ NoChange
  \/ IsEvent("settle") /\ Settled(E.pending, E.stuck) /\ NoChange
  \/ IsEvent("end") /\ PrintT(<<"ACCEPTED", E.tr>>) /\ NoChange

T_Silent ==
  /\ l <= Len(Trace) /\ TLCSet(2, l) /\ UNCHANGED l
  /\ \E c \in calls : Enqueue(c) \/ StopBegins(c) \/ StopEnds(c) \/ StartEffect(c) \/ GiveUp(c)

T_Skip == l <= Len(Trace) /\ E.ev # "config" /\ l' = EndIdx[E.tr] + 1 /\ ResetAll(FALSE, TRUE, TRUE, 100)
TNext == T_Config \/ T_Events \/ T_Silent \/ T_Skip
TSpec == TInit /\ [][TNext]_tvars

ASSUME TLCSet(2, 0)
ASSUME \A t \in TraceNums : TLCSet(10 + t, 0)
HW == l > Len(Trace) \/ (IF l > TLCGet(10 + E.tr) THEN TLCSet(10 + E.tr, l) ELSE TRUE)
PostReport ==
  \A t \in TraceNums : PrintT(<<"HW", t, TLCGet(10 + t), IF TLCGet(10 + t) \in 1..Len(Trace) THEN ToJson(Trace[TLCGet(10 + t)]) ELSE "{}">>)
=============================================================================
