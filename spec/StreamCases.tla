----------------------------- MODULE StreamCases -----------------------------
(***************************************************************************)
(* C03, spec -> code.  Byte streams are built from reference encodings      *)
(* (MQTTCodec.tla); for every stream, read limit and truncation point the   *)
(* reference framing semantics gives the packets a receiver must obtain     *)
(* and how the stream must end - independently of how the bytes are         *)
(* fragmented in transit.  The Go replayer feeds every composition of the   *)
(* short streams (all 2^(n-1) ways to cut n bytes) and seeded random         *)
(* chunkings of the long ones through packet.Decoder, BaseConn over a        *)
(* scripted carrier, TCP and WebSocket loopback, and compares.               *)
(***************************************************************************)
EXTENDS MQTTCodec, Json, SequencesExt

Big == @@BIG@@
Fill(n, b) == IF n = 0 THEN <<>> ELSE <<[n |-> n, b |-> b]>>
Pub(q, id, tl, pl) == [Blank EXCEPT !.t = PUBLISH, !.qos = q, !.id = IF q > 0 THEN id ELSE 0, !.topic = Fill(tl, 116),
                                    !.payload = IF pl > 1 THEN B1(1) \o Fill(pl - 2, 170) \o B1(255) ELSE Fill(pl, 7)]
Ident(t, id) == [Blank EXCEPT !.t = t, !.id = id]
Naked0(t) == [Blank EXCEPT !.t = t]
Sub1 == [Blank EXCEPT !.t = SUBSCRIBE, !.id = 9, !.subs = <<[topic |-> Fill(1, 97), qos |-> 1]>>]
Conn1 == [Blank EXCEPT !.t = CONNECT, !.ver = 4, !.clean = TRUE, !.ka = 5, !.cid = Fill(1, 99)]

\* the packet menu: lengths 2, 4, 5, 6, 8, 15 and around the 1/2-byte remaining-length boundary (129, 130, 131)
Small == <<Naked0(PINGREQ), Ident(PUBACK, 7), Pub(0, 0, 1, 0), Pub(0, 0, 1, 1), Pub(1, 258, 1, 1), Sub1, Conn1,
           Pub(0, 0, 1, 124), Pub(0, 0, 1, 125), Pub(0, 0, 1, 126), Naked0(DISCONNECT)>>
\* long packets: around bufio's 4096-byte buffer and around the read limits
Long == IF Big THEN <<Pub(1, 3, 3, 4080), Pub(0, 0, 3, 4087), Pub(0, 0, 3, 4088), Pub(2, 4, 2, 4090), Pub(0, 0, 1, 8190), Pub(1, 5, 1, 16380), Pub(0, 0, 2, 70000)>>
        ELSE <<Pub(0, 0, 3, 4087), Pub(0, 0, 3, 4088), Pub(2, 4, 2, 4090), Pub(0, 0, 1, 8190)>>

Bytes(p) == Expand(EncR(p))
Pre(b, n) == SubSeq(b, 1, IF n > Len(b) THEN Len(b) ELSE IF n < 0 THEN 0 ELSE n)

\* reference framing: parse a byte stream the way any conforming receiver must
RECURSIVE ParseFrom(_, _, _, _)
ParseFrom(b, i, limit, acc) ==
  IF i > Len(b) THEN [pkts |-> acc, err |-> "eof"]
  ELSE LET rest == SubSeq(b, i, Len(b)) IN
       IF Len(rest) < 2 THEN [pkts |-> acc, err |-> "partial"]
       ELSE LET v == ReadVarint(rest, 2) IN
            IF ~v.ok THEN [pkts |-> acc, err |-> IF Len(rest) >= 5 THEN "overflow" ELSE "partial"]
            ELSE LET len == 1 + v.n + v.v IN
                 IF limit > 0 /\ len > limit THEN [pkts |-> acc, err |-> "limit"]         \* refused before it is buffered
                 ELSE IF rest[1] \div 16 \notin 1..14 THEN [pkts |-> acc, err |-> "invalid"]
                 ELSE IF len > Len(rest) THEN [pkts |-> acc, err |-> "partial"]             \* a stream that ends inside a packet
                 ELSE LET d == Dec(SubSeq(rest, 1, len)) IN
                      IF ~d.ok THEN [pkts |-> acc, err |-> "invalid"]
                      ELSE ParseFrom(b, i + len, limit, Append(acc, d.p))
Parse(b, limit) == ParseFrom(b, 1, limit, <<>>)

Case(name, b, limit) == LET r == Parse(b, limit) IN [name |-> name, s |-> b, limit |-> limit, n |-> Len(r.pkts), pkts |-> r.pkts, err |-> r.err]

\* short streams: every single packet, every pair and some triples of small packets, plus every truncation, read limits 0 / 3 / 5 / 129
Shorts == {<<i>> : i \in 1..7} \cup {<<i, j>> : i \in 1..7, j \in {1, 2, 4, 5}} \cup {<<1, 2, 3>>, <<4, 1, 2>>, <<2, 2, 2>>, <<5, 11, 1>>}
Cat(ix, M) == CatAll([k \in 1..Len(ix) |-> Bytes(M[ix[k]])])
ShortCases ==
  UNION {{Case("short", Pre(Cat(ix, Small), cut), limit) : cut \in 0..Len(Cat(ix, Small)), limit \in {0, 5}} : ix \in Shorts}
  \cup {Case("limit", Pre(Cat(ix, Small), cut), limit) : ix \in {<<2, 6>>, <<3, 7, 1>>}, cut \in {9, 10, 12, 14}, limit \in {3, 4, 6, 14}}
  \cup {Case("garbage", g, 0) : g \in {<<0, 0>>, <<240, 0>>, <<16, 255, 255, 255, 255, 1>>, <<48, 128, 128, 128, 128>>, <<48, 128, 128>>, <<192, 0, 255>>, <<32, 2, 0>>, <<32, 2, 0, 9>>, <<48, 1, 0>>}}
\* boundary streams: packets whose length straddles the 1/2-byte remaining length, cut around the header, read limits around them
MidCases ==
  {Case("mid", Pre(Cat(ix, Small), Len(Cat(ix, Small)) - cut), limit) :
     ix \in {<<8>>, <<9>>, <<10>>, <<1, 9, 2>>, <<10, 8, 1>>}, cut \in {0, 1, 2, 127}, limit \in {0, 129, 130, 131}}
LongCases ==
  {Case("long", Pre(Cat(ix, Long) \o Bytes(Small[2]), Len(Cat(ix, Long)) + 4 - cut), limit) :
     ix \in {<<1>>, <<2>>, <<3>>, <<4>>, <<2, 3>>, <<1, 4, 2>>} \cup (IF Big THEN {<<5, 6>>, <<7>>, <<6, 1, 7>>} ELSE {}),
     cut \in {0, 1, 5}, limit \in {0, 4096, 4097, 8200}}

\* streams with a packet at the 3/4-byte remaining-length boundary (2 097 151 / 2 097 152): kept in run form, the expected packets as a summary
HugeRuns(pl, cut) == LET r == EncR(Pub(1, 77, 1, pl)) \o EncR(Ident(PUBACK, 7)) IN
                     IF cut = 0 THEN r ELSE SubSeq(r, 1, Len(r) - 1)          \* cut: without the trailing 4-byte packet's last run
HugeCase(pl, cut, limit) ==
  LET runs == HugeRuns(pl, cut)  r == Parse(Expand(runs), limit) IN
  [name |-> "huge", sr |-> runs, limit |-> limit, n |-> Len(r.pkts), err |-> r.err,
   sum |-> [i \in 1..Len(r.pkts) |-> [t |-> r.pkts[i].t, id |-> r.pkts[i].id, plen |-> Len(r.pkts[i].payload)]]]
HugeCases == {HugeCase(pl, cut, limit) : pl \in (IF Big THEN {2097146, 2097147, 2097148} ELSE {2097147}), cut \in {0, 1}, limit \in (IF Big THEN {0, 2097152, 3000000} ELSE {0})}

ASSUME ndJsonSerialize("@@OUT@@/streamcases.ndjson", SetToSeq(ShortCases \cup MidCases \cup LongCases))
ASSUME ndJsonSerialize("@@OUT@@/hugecases.ndjson", SetToSeq(HugeCases))
ASSUME \A c \in HugeCases : (c.limit = 0 /\ Len(c.sr) > 8) => c.n >= 1
ASSUME PrintT(<<"CASES", Cardinality(ShortCases), Cardinality(MidCases), Cardinality(LongCases)>>)
\* the reference itself: a stream of whole packets parses to exactly those packets
ASSUME \A ix \in Shorts : LET r == Parse(Cat(ix, Small), 0) IN r.err = "eof" /\ Len(r.pkts) = Len(ix)
=============================================================================
