SPECIFICATION TSpec
CONSTANTS
  Conns <- TraceConns
  SKeys <- TraceSKeys
  Report = TRUE
  Checked = {}
CONSTRAINT HW
POSTCONDITION PostReport
CHECK_DEADLOCK FALSE
