---------------------------- MODULE BrokerTrace ----------------------------
(***************************************************************************)
(* Trace validation of the real broker against Broker.tla.                  *)
(*                                                                         *)
(* The file holds many traces (each: config ... settle ... end); `l' is the *)
(* position of the next event to consume.  Every logged event selects one  *)
(* action of Broker.tla and supplies the observed values as its arguments; *)
(* the unobservable steps (per-session fan-out of Publish, retained replay *)
(* inside Subscribe, the start of cleanup) are silent actions.              *)
(* A trace is accepted iff its `end' event can be consumed (ACCEPTED line). *)
(* TSkip lets the run continue behind a rejected trace; per-trace high-     *)
(* water marks (TLC registers 10+tr) locate the rejected event, and the     *)
(* GUARD-FAILED lines printed at that position give the property tag.       *)
(***************************************************************************)
EXTENDS Broker, Json

Trace == ndJsonDeserialize("@@TRACE@@")

TraceConns == {Trace[i].c : i \in {j \in 1..Len(Trace) : "c" \in DOMAIN Trace[j]}}
TraceSKeys == {Trace[i].s : i \in {j \in 1..Len(Trace) : Trace[j].ev = "setup.ret"}} \ {""}
TraceNums == {Trace[i].tr : i \in 1..Len(Trace)}
\* position of each trace's end event (a constant function: computed once)
EndIdx == [t \in TraceNums |-> CHOOSE i \in 1..Len(Trace) : Trace[i].tr = t /\ Trace[i].ev = "end"]
EndOf(t) == EndIdx[t]

VARIABLES l
tvars == <<vars, l>>

E == Trace[l]
IsEvent(e) == l <= Len(Trace) /\ Trace[l].ev = e /\ TLCSet(2, l) /\ l' = l + 1
C == E.c

TInit == Init /\ l = 1

ResetAll(window, queue, pubpar, subpar, auth, ackmode) ==
  /\ link' = [c \in Conns |-> "none"]
  /\ up' = [c \in Conns |-> <<>>]
  /\ down' = [c \in Conns |-> <<>>]
  /\ cl' = [c \in Conns |-> Client0]
  /\ dq' = [c \in Conns |-> Dq0]
  /\ ackq' = [c \in Conns |-> <<>>]
  /\ ackdue' = [c \in Conns |-> {}]
  /\ tok' = [c \in Conns |-> [p |-> 0, s |-> 0, d |-> 0]]
  /\ pubctx' = [c \in Conns |-> Ctx0]
  /\ sess' = [k \in SKeys |-> Sess0]
  /\ retained' = {}
  /\ cfg' = [window |-> window, queue |-> queue, pubpar |-> pubpar, subpar |-> subpar, auth |-> auth, ackmode |-> ackmode]
  /\ closing' = FALSE
  /\ ghost' = [handed |-> <<>>, acked |-> {}, willpub |-> <<>>]

T_Config ==
  /\ l <= Len(Trace) /\ E.ev = "config" /\ TLCSet(2, l) /\ l' = l + 1
  /\ ResetAll(E.window, E.queue, E.pubpar, E.subpar, E.auth, E.ackmode)

NoChange == UNCHANGED vars
\* observation clock (milliseconds, logged with every event; used only for "not earlier than" with generous slack): when did this
\* connection's dequeuer last do anything (obtain a token, get a message, send it) - it can have been waiting for a token only since then
RECURSIVE LastTokenTs(_, _)
LastTokenTs(c, j) == IF j < 1 \/ Trace[j].tr # E.tr \/ Trace[j].ev = "config" THEN 0
                     ELSE IF "c" \in DOMAIN Trace[j] /\ Trace[j].c = c /\ (Trace[j].ev \in {"deq.call", "deq.ret", "restore"} \/ (Trace[j].ev = "bsend" /\ Trace[j].pkt.t = "PUBLISH"))
                          THEN Trace[j].ts
                     ELSE LastTokenTs(c, j - 1)
RECURSIVE TokenMs(_)
TokenMs(j) == IF j < 1 THEN 0 ELSE IF Trace[j].ev = "config" /\ Trace[j].tr = E.tr THEN Trace[j].token_ms ELSE TokenMs(j - 1)

T_PeerSide ==
  \/ IsEvent("popen") /\ PeerOpen(C)
  \/ IsEvent("psend") /\ PeerSend(C, E.pkt)
  \/ IsEvent("precv") /\ PeerRecv(C, E.pkt)
  \/ IsEvent("pclose") /\ PeerClose(C)
  \/ IsEvent("peof") /\ PeerEOF(C)
  \/ IsEvent("cut") /\ Cut(C)
  \/ IsEvent("pnote") /\ NoChange
  \/ IsEvent("newconn") /\ NoChange
  \/ IsEvent("disconnected") /\ NoChange
  \/ IsEvent("bclose.ret") /\ NoChange

T_Conn ==
  \/ IsEvent("brecv") /\ BRecv(C, E.pkt)
  \/ IsEvent("brecv_err") /\ BRecvErr(C, E.err)
  \/ IsEvent("bclose") /\ BClose(C)
  \/ IsEvent("die") /\ Die(C, E.class, E.err)
                      \* a token timeout is reported only after the window has been exhausted for (at least half of) the configured time
                      /\ G("C16", "TokenTimeoutOnlyAfterWaiting", E.err = "token timeout" => (tok[C].d = 0 /\ E.ts - LastTokenTs(C, l - 1) >= TokenMs(l) \div 2))
  \/ IsEvent("bsend_err") /\ (SendErrProc(C) \/ SendErrAck(C, E.pkt) \/ SendErrDeq(C, E.pkt))
  \/ IsEvent("bsend") /\
       CASE E.pkt.t = "CONNACK" -> SendConnackDenied(C, E.pkt) \/ SendConnack(C, E.pkt)
         [] E.pkt.t = "PUBLISH" -> ResendOne(C, E.pkt) \/ DeqSend(C, E.pkt)
         [] E.pkt.t = "PUBREL"  -> ResendOne(C, E.pkt) \/ SendPubrel(C, E.pkt)
         [] E.pkt.t = "PUBREC"  -> SendPubrec(C, E.pkt)
         [] E.pkt.t = "PUBCOMP" -> SendPubcompUnknown(C, E.pkt) \/ AckSend(C, E.pkt)
         [] E.pkt.t \in {"PUBACK", "SUBACK", "UNSUBACK"} -> AckSend(C, E.pkt)
         [] E.pkt.t = "PINGRESP" -> SendPingresp(C, E.pkt)
         [] OTHER -> G("C20", "BrokerSendsOnlyServerPackets", FALSE) /\ NoChange

T_Backend ==
  \/ IsEvent("auth.call") /\ AuthCall(C)
  \/ IsEvent("auth.ret") /\ AuthRet(C, E.ok, E.err)
  \/ IsEvent("setup.call") /\ SetupCall(C, E.cid, E.clean)
  \/ IsEvent("setup.ret") /\ (IF E.err = "" THEN SetupRet(C, E.resumed, E.s) ELSE SetupFail(C, E.err))
  \/ IsEvent("restore") /\ Restore(C, E.err)
  \/ IsEvent("sub.call") /\ SubCall(C, E.subs)
  \/ IsEvent("sub.ack") /\ SubAck(C)
  \/ IsEvent("sub.ret") /\ SubRet(C, E.err)
  \/ IsEvent("unsub.call") /\ UnsubCall(C, E.topics)
  \/ IsEvent("unsub.ack") /\ UnsubAck(C)
  \/ IsEvent("unsub.ret") /\ UnsubRet(C, E.err)
  \/ IsEvent("pub.call") /\ PubCall(C, E.msg, E.hasack)
  \/ IsEvent("pub.ack") /\ PubAck(C, E.m)
  \/ IsEvent("pub.ret") /\ PubRet(C, E.err)
  \/ IsEvent("deq.call") /\ DeqCall(C)
  \/ IsEvent("deq.ret") /\ (IF E.nil THEN (IF E.err = "" THEN DeqRetNil(C) ELSE DeqFail(C))
                              ELSE DeqRet(C, E.msg, TRUE) \/ DeqRet(C, E.msg, FALSE))
  \/ IsEvent("term.call") /\ TermCall(C)
  \/ IsEvent("term.ret") /\ TermRet(C, E.err)
  \/ IsEvent("closed") /\ Closed(C)
  \/ IsEvent("bclose.call") /\ BackendCloseCall

\* session-store operations (hooks, under the store's lock); the connection is the one owning the session now
T_Session ==
  \/ IsEvent("sess.nextid") /\ \E c \in Conns : DeqNextID(c, E.s, E.id)
  \/ IsEvent("sess.save") /\ \E c \in Conns :
        IF E.d = "in" THEN IncSave(c, E.s, E.pkt)
        ELSE IF E.pkt.t = "PUBREL" THEN OutSaveRel(c, E.s, E.pkt) ELSE DeqSave(c, E.s, E.pkt)
  \/ IsEvent("sess.lookup") /\ \E c \in Conns : IncLookup(c, E.s, E.id, E.pkt)
  \/ IsEvent("sess.delete") /\ \E c \in Conns : (IF E.d = "in" THEN IncDelete(c, E.s, E.id) ELSE OutDelete(c, E.s, E.id))
  \/ IsEvent("sess.all") /\ \E c \in Conns : cl[c].sk = E.s /\ ResendList(c, E.list)
  \/ IsEvent("sess.creset") /\ SessCounterReset(E.s)

T_Settle ==
  /\ IsEvent("settle")
  /\ Settled
  /\ NoChange

T_End ==
  /\ IsEvent("end")
  /\ G("C14", "NoGoroutineLeftBlocked", E.leaked = 0)
  /\ \A c \in Conns : G("C14", "ClosedSignalFires", cl[c].pc # "off" => cl[c].closed)
  /\ PrintT(<<"ACCEPTED", E.tr>>)
  /\ NoChange

\* prophecy for the one choice the property leaves open and the trace decides later: a QoS 0 message for an offline session was
\* kept iff it is dequeued later on a connection that does not exist yet
KeepHint(m) == \E j \in l..EndOf(E.tr) : /\ Trace[j].ev = "deq.ret" /\ ~Trace[j].nil /\ Trace[j].msg.m = m
                                         /\ \E i \in l..j : Trace[i].ev = "popen" /\ Trace[i].c = Trace[j].c
T_Silent ==
  /\ l <= Len(Trace) /\ TLCSet(2, l)
  /\ UNCHANGED l
  /\ \/ \E c \in Conns : \E s \in pubctx[c].todo : FanOut(c, s, FALSE, KeepHint(pubctx[c].msg.m)) \/ FanOut(c, s, TRUE, FALSE)
     \/ \E c \in Conns : cl[c].pc = "sub.acked" /\ \E i \in 1..Len(cl[c].pkt.subs) : \E m \in retained : SubReplay(c, i, m)
     \/ \E c \in Conns : CleanupStart(c)
     \/ \E c \in Conns : SubApply(c) \/ UnsubApply(c)

\* jump over the rest of a trace that cannot be continued (both paths meet again at its end)
T_Skip ==
  /\ l <= Len(Trace) /\ E.ev # "config"
  /\ l' = EndOf(E.tr) + 1
  /\ ResetAll(0, 0, 0, 0, FALSE, "")

TNext == T_Config \/ T_PeerSide \/ T_Conn \/ T_Backend \/ T_Session \/ T_Settle \/ T_End \/ T_Silent \/ T_Skip
TSpec == TInit /\ [][TNext]_tvars

\* per-trace high-water marks
ASSUME TLCSet(2, 0)
ASSUME \A t \in TraceNums : TLCSet(10 + t, 0)
HW == l > Len(Trace) \/ (IF l > TLCGet(10 + E.tr) THEN TLCSet(10 + E.tr, l) ELSE TRUE)
PostReport ==
  \A t \in TraceNums : PrintT(<<"HW", t, TLCGet(10 + t), IF TLCGet(10 + t) \in 1..Len(Trace) THEN ToJson(Trace[TLCGet(10 + t)]) ELSE "{}">>)
=============================================================================
