SPECIFICATION SpecD
CONSTANTS
  Pkts <- MCPkts
  Cuts <- MCCuts
  Limits <- MCLimits
  Steps <- MCSteps
  Dev = {@@DEV@@}
INVARIANTS SameAsReference DeliveredIsPrefix NoPacketFromPartial LimitBeforeBuffer
PROPERTIES DecoderTerminates
CHECK_DEADLOCK FALSE
