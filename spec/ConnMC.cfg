SPECIFICATION Spec
CONSTANTS
  Senders = {@@SENDERS@@}
  PerSender = @@PER@@
  Enc <- MCEnc
  SyncOf <- MCSync
  Delay0s = {@@D0@@}
  MaxCloses = @@CLOSES@@
  FeedLens <- MCFeed
  MaxRecvs = @@RECVS@@
  Faults = @@FAULTS@@
  Oracle <- MCOracle
  LateBytes = FALSE
  Report = FALSE
  Dev = {@@DEV@@}
VIEW MCView
CONSTRAINT Bound
INVARIANTS @@INV@@
PROPERTIES @@PROPS@@
CHECK_DEADLOCK FALSE
