------------------------------- MODULE Client -------------------------------
(***************************************************************************)
(* Implementation-shaped specification of client.Client (client/client.go, *)
(* client/futures.go, client/future) at the granularity of the events the  *)
(* conformance harness observes: packets crossing the harness-owned link,  *)
(* session operations (wrapped session), callback invocations, API calls   *)
(* and returns, observed future resolutions.  API threads and the          *)
(* processor goroutine have their own program counters; die()/cleanup run  *)
(* without the API mutex, as in the code.                                   *)
(* Properties: C09 (outgoing QoS>=1, futures), C10 (incoming QoS 2,         *)
(* acknowledgements, callback errors), C15 (resend order, arrival order).   *)
(***************************************************************************)
EXTENDS Integers, Sequences, FiniteSets, TLC

CONSTANTS Conns,     \* connection instances
          Report,    \* TRUE in trace validation
          Dev        \* deviations modelling known findings (KNOWN_FINDINGS.txt)

G(tag, name, cond) ==
  IF cond THEN TRUE
  ELSE (IF Report THEN PrintT(<<"GUARD-FAILED", tag, name, TLCGet(2)>>) ELSE TRUE) /\ FALSE

VARIABLES link, up, down,   \* as in Broker.tla; up: client -> broker, down: broker -> client
          obj,      \* the current client object
          proc,     \* processor goroutine: [pc, pkt, list]
          inside,   \* the API call holding the client's mutex (or NoCall)
          waiting,  \* API calls issued and not yet inside
          sessC,    \* the client's session: [out, inc, next]
          futs,     \* set of futures [n, kind, id, st, stored]
          fname,    \* set of <<name, n>>: names given to futures by the harness
          nfut,     \* futures created so far
          cfg,      \* [clean, early, validate]
          obs       \* resolutions observed before the harness's name was bound (set of <<name, state>>)

vars == <<link, up, down, obj, proc, inside, waiting, sessC, futs, fname, nfut, cfg, obs>>

NoMsg == [m |-> "none", top |-> <<>>, q |-> 0, ret |-> FALSE, plen |-> 0, psum |-> 0]
NoPkt == [t |-> "none", id |-> 0]
NoCall == [a |-> 0, m |-> "", pc |-> "", id |-> 0, fut |-> 0]
SameMsg(a, b) == a.m = b.m /\ a.top = b.top /\ a.plen = b.plen /\ a.psum = b.psum
SeqSet(s) == {s[i] : i \in 1..Len(s)}
IdSucc(n) == IF n = 65535 THEN 1 ELSE n + 1

Obj0 == [state |-> "init", conn |-> "", first |-> TRUE, died |-> FALSE, clean |-> FALSE, connfut |-> 0]
Proc0 == [pc |-> "off", pkt |-> NoPkt, list |-> <<>>, rel |-> FALSE, cont |-> FALSE]
Sess0 == [out |-> <<>>, inc |-> {}, next |-> 1]

Init ==
  /\ link = [c \in Conns |-> "none"] /\ up = [c \in Conns |-> <<>>] /\ down = [c \in Conns |-> <<>>]
  /\ obj = Obj0 /\ proc = Proc0 /\ inside = NoCall /\ waiting = {}
  /\ sessC = Sess0 /\ futs = {} /\ fname = {} /\ nfut = 0
  /\ cfg = [clean |-> FALSE, early |-> FALSE, validate |-> TRUE]
  /\ obs = {}

OutIds == {sessC.out[i].id : i \in 1..Len(sessC.out)}
IncIds == {x.id : x \in sessC.inc}
Ended == obj.state \in {"disconnected", "init"}

\* futureStore.Clear(): every stored future is cancelled (and the connect future if no CONNACK was processed)
Cleared(fs, withConnect) ==
  {IF (f.stored /\ f.st = "pending") \/ (withConnect /\ f.n = obj.connfut /\ f.st = "pending") THEN [f EXCEPT !.st = "cancelled", !.stored = FALSE] ELSE [f EXCEPT !.stored = FALSE] : f \in fs}
Complete(fs, id) == {IF f.stored /\ f.id = id /\ f.st = "pending" THEN [f EXCEPT !.st = "completed", !.stored = FALSE] ELSE f : f \in fs}
Cancel1(fs, id) == {IF f.stored /\ f.id = id /\ f.st = "pending" THEN [f EXCEPT !.st = "cancelled", !.stored = FALSE] ELSE f : f \in fs}

----------------------------------------------------------------------------
(* scripted broker and network *)
PeerSend(c, pkt) == link[c] = "up" /\ down' = [down EXCEPT ![c] = Append(@, pkt)]
                    /\ UNCHANGED <<link, up, obj, proc, inside, waiting, sessC, futs, fname, nfut, cfg, obs>>
PeerRecv(c, pkt) == link[c] \in {"up", "gclosed", "pclosed"} /\ up[c] # <<>>       \* (the scripted peer's reader drains what was in flight when the peer closed)
                    /\ G("C09", "WireOrder", Head(up[c]) = pkt)
                    /\ up' = [up EXCEPT ![c] = Tail(@)]
                    /\ UNCHANGED <<link, down, obj, proc, inside, waiting, sessC, futs, fname, nfut, cfg, obs>>
PeerClose(c) == link[c] \in {"up", "gclosed"}
                /\ link' = [link EXCEPT ![c] = IF link[c] = "up" THEN "pclosed" ELSE "dead"]
                /\ (IF link[c] = "up" THEN UNCHANGED <<up, down>> ELSE up' = [up EXCEPT ![c] = <<>>] /\ down' = [down EXCEPT ![c] = <<>>])
                /\ UNCHANGED <<obj, proc, inside, waiting, sessC, futs, fname, nfut, cfg, obs>>
Cut(c) == link[c] # "none" /\ link' = [link EXCEPT ![c] = "dead"] /\ up' = [up EXCEPT ![c] = <<>>] /\ down' = [down EXCEPT ![c] = <<>>]
          /\ UNCHANGED <<obj, proc, inside, waiting, sessC, futs, fname, nfut, cfg, obs>>
GClose(c) == link' = [link EXCEPT ![c] = CASE link[c] = "up" -> "gclosed" [] link[c] = "pclosed" -> "dead" [] OTHER -> link[c]]
Wire(c, pkt) == link[c] = "up" /\ up' = [up EXCEPT ![c] = Append(@, pkt)]

NewClient ==
  /\ obj.state \in {"init", "disconnected"}      \* (scripts replace a client object only after it has ended)
  /\ obj' = [Obj0 EXCEPT !.clean = cfg.clean]
  /\ proc' = Proc0
  /\ futs' = {[f EXCEPT !.stored = FALSE] : f \in futs}       \* a new client object has its own future store
  /\ UNCHANGED <<link, up, down, inside, waiting, sessC, fname, nfut, cfg, obs>>

----------------------------------------------------------------------------
(* API calls.  ApiCall registers the call; ApiEnter (silent) takes the client's mutex. *)
ApiCall(a, m, arg) ==
  /\ waiting' = waiting \cup {[a |-> a, m |-> m, arg |-> arg, refused |-> FALSE, left |-> FALSE, pc |-> "", fut |-> 0]}
  /\ UNCHANGED <<link, up, down, obj, proc, inside, sessC, futs, fname, nfut, cfg, obs>>

ApiEnter(w) ==
  /\ inside = NoCall /\ w \in waiting /\ ~w.refused /\ ~w.left
  /\ LET ok == CASE w.m = "connect" -> obj.state = "init"
                 [] w.m \in {"publish", "subscribe", "unsubscribe", "disconnect"} -> obj.state = "connected"
                 [] w.m = "close" -> obj.state # "init"
     IN IF ok THEN /\ waiting' = waiting \ {w}
                   /\ inside' = [a |-> w.a, m |-> w.m, pc |-> "start", id |-> 0, fut |-> 0, arg |-> w.arg]
        \* a call refused by the state check has released the mutex again when this step is over; its return is logged some time later
        ELSE /\ waiting' = (waiting \ {w}) \cup {[w EXCEPT !.refused = TRUE]}
             /\ UNCHANGED inside
  /\ UNCHANGED <<link, up, down, obj, proc, sessC, futs, fname, nfut, cfg, obs>>

In(m, pc) == inside.m = m /\ inside.pc = pc

\* the call returns; a future it created gets the harness's name
\* silent: the call has done its work and releases the mutex; its return is logged some time later (another call may enter meanwhile)
ApiLeave ==
  /\ inside # NoCall /\ inside.pc \in {"done", "failed"}
  /\ (inside.m \in {"close", "disconnect"} /\ inside.pc = "done") => proc.pc \in {"off", "dead"}
  /\ waiting' = waiting \cup {[a |-> inside.a, m |-> inside.m, arg |-> 0, refused |-> FALSE, left |-> TRUE, pc |-> inside.pc, fut |-> inside.fut]}
  /\ inside' = NoCall
  /\ UNCHANGED <<link, up, down, obj, proc, sessC, futs, fname, nfut, cfg, obs>>

ApiRet(a, m, err, f) ==
  \/ /\ \E w \in waiting : w.refused /\ w.a = a /\ w.m = m /\ waiting' = waiting \ {w}
     /\ err # "" /\ f = ""
     /\ UNCHANGED <<link, up, down, obj, proc, inside, sessC, futs, fname, nfut, cfg, obs>>
  \/ /\ \E w \in waiting : w.left /\ w.a = a /\ w.m = m /\ waiting' = waiting \ {w} /\
          /\ \/ w.pc = "done" /\ (err = "" \/ m \in {"close", "disconnect"}) /\ (f = "") = (w.fut = 0)
             \/ w.pc = "failed" /\ err # "" /\ f = ""
          /\ fname' = IF f = "" THEN fname ELSE fname \cup {<<f, w.fut>>}
          /\ \A o \in obs : o[1] = f => \E x \in futs : x.n = w.fut /\ G("C09", "FutureResolvesTruthfully", x.st = o[2])
     /\ UNCHANGED <<link, up, down, obj, proc, inside, sessC, futs, nfut, cfg, obs>>
  \/ /\ inside.a = a /\ inside.m = m
     /\ \/ inside.pc = "done" /\ (err = "" \/ m \in {"close", "disconnect"}) /\ (f = "") = (inside.fut = 0)   \* (Close/Disconnect report a cleanup error)
        \/ inside.pc = "failed" /\ err # "" /\ f = ""
     /\ G("C09", "CloseAndDisconnectReturnAfterCleanup", (m \in {"close", "disconnect"} /\ inside.pc = "done") => proc.pc \in {"off", "dead"})
     /\ fname' = IF f = "" THEN fname ELSE fname \cup {<<f, inside.fut>>}
     \* a resolution observed before the name was known must be the future's (final) state
     /\ \A o \in obs : o[1] = f => \E x \in futs : x.n = inside.fut /\ G("C09", "FutureResolvesTruthfully", x.st = o[2])
     /\ inside' = NoCall
     /\ UNCHANGED <<link, up, down, obj, proc, waiting, sessC, futs, nfut, cfg, obs>>

NewFut(kind, id, stored, st) == [n |-> nfut + 1, kind |-> kind, id |-> id, st |-> st, stored |-> stored, late |-> (stored /\ obj.state # "connected")]

\* Connect: dial, (reset a clean session), send CONNECT, start the processor
Dial(c, err) ==
  /\ In("connect", "start")
  /\ IF err # "" THEN inside' = [inside EXCEPT !.pc = "failed"] /\ UNCHANGED <<link, obj>>
     ELSE /\ link' = [link EXCEPT ![c] = "up"]
          /\ obj' = [obj EXCEPT !.state = "connecting", !.conn = c, !.clean = inside.arg]
          /\ inside' = [inside EXCEPT !.pc = IF inside.arg THEN "c.reset" ELSE "c.send"]
  /\ UNCHANGED <<up, down, proc, waiting, sessC, futs, fname, nfut, cfg, obs>>

SessReset(err) ==
  /\ \/ /\ In("connect", "c.reset")
        /\ inside' = [inside EXCEPT !.pc = IF err = "" THEN "c.send" ELSE "fail.close"]      \* abort(err, closeConn = true)
        /\ obj' = IF err = "" THEN obj ELSE [obj EXCEPT !.state = "init"]
        /\ UNCHANGED <<proc, futs>>
     \/ /\ obj.clean /\ proc.pc = "die.reset"                         \* cleanup of a dying client
        /\ proc' = [proc EXCEPT !.pc = "die.cb"]
        /\ UNCHANGED <<inside, obj, futs>>
     \/ /\ obj.clean /\ inside.pc = "end.reset"                       \* cleanup by Close / Disconnect
        /\ inside' = [inside EXCEPT !.pc = "end.wait"]
        /\ UNCHANGED <<proc, obj, futs>>
     \/ /\ obj.clean /\ inside.pc = "fail.reset"                      \* cleanup of a failed API call
        /\ inside' = [inside EXCEPT !.pc = "failed"]
        /\ UNCHANGED <<proc, obj, futs>>
  /\ sessC' = IF err = "" THEN Sess0 ELSE sessC
  /\ UNCHANGED <<link, up, down, waiting, fname, nfut, cfg, obs>>

SendConnect(c, pkt) ==
  /\ In("connect", "c.send") /\ c = obj.conn /\ pkt.t = "CONNECT"
  /\ G("C09", "CleanFlag", pkt.clean = obj.clean)
  /\ Wire(c, pkt)
  /\ futs' = futs \cup {NewFut("connect", 0, FALSE, "pending")}
  /\ nfut' = nfut + 1
  /\ obj' = [obj EXCEPT !.connfut = nfut + 1]
  /\ inside' = [inside EXCEPT !.pc = "done", !.fut = nfut + 1]
  /\ proc' = [Proc0 EXCEPT !.pc = "recv"]
  /\ UNCHANGED <<link, down, waiting, sessC, fname, cfg, obs>>

\* CONNECT could not be sent: the client is reset so that a later Close does not wait for a processor that never ran
SendConnectFail(c) ==
  /\ In("connect", "c.send") /\ c = obj.conn /\ link[c] # "up"
  /\ GClose(c)
  /\ inside' = [inside EXCEPT !.pc = IF obj.clean THEN "fail.reset" ELSE "failed"]
  /\ obj' = [obj EXCEPT !.state = "init"]
  /\ UNCHANGED <<up, down, proc, waiting, sessC, futs, fname, nfut, cfg, obs>>

\* Publish / Subscribe / Unsubscribe: NextID, register the future, (save), send
NextID(id) ==
  /\ ((In("publish", "start") /\ inside.arg.q > 0) \/ In("subscribe", "start") \/ In("unsubscribe", "start"))
  /\ G("C18", "IdFromCounter", id = sessC.next)
  \* the future is registered right after the id was obtained; die()/cleanup may have run since the state check (known finding)
  /\ G("C09", "NoFutureRegisteredAfterCleanup", obj.state = "connected" \/ "ClientDieVsApiRace" \in Dev)
  /\ sessC' = [sessC EXCEPT !.next = IdSucc(id)]
  /\ futs' = {[f EXCEPT !.stored = IF f.stored /\ f.id = id THEN FALSE ELSE @] : f \in futs} \cup {NewFut(inside.m, id, TRUE, "pending")}
  /\ nfut' = nfut + 1
  /\ inside' = [inside EXCEPT !.id = id, !.fut = nfut + 1, !.pc = IF inside.m = "publish" THEN "p.save" ELSE "send"]
  /\ UNCHANGED <<link, up, down, obj, proc, waiting, fname, cfg, obs>>

ApiSave(pkt, err) ==
  /\ In("publish", "p.save") /\ pkt.t = "PUBLISH" /\ pkt.id = inside.id
  /\ G("C09", "StoredPublishIsTheMessage", SameMsg(pkt.msg, inside.arg) /\ pkt.msg.q = inside.arg.q /\ ~pkt.dup)
  /\ IF err = "" THEN /\ sessC' = [sessC EXCEPT !.out = Append(SelectSeq(@, LAMBDA x : x.id # pkt.id), [id |-> pkt.id, k |-> "pub", msg |-> pkt.msg])]
                      /\ inside' = [inside EXCEPT !.pc = "send"]
                      /\ UNCHANGED <<futs, obj>>
     ELSE \* cleanup(err, closeConn = true)
          /\ inside' = [inside EXCEPT !.pc = "fail.close", !.fut = 0]
          /\ futs' = Cleared(futs, obj.state \in {"connecting"})
          /\ obj' = [obj EXCEPT !.state = "disconnected"]
          /\ UNCHANGED sessC
  /\ UNCHANGED <<link, up, down, proc, waiting, fname, nfut, cfg, obs>>

ApiSend(c, pkt) ==
  /\ c = obj.conn
  /\ \/ /\ (In("publish", "send") \/ In("publish", "p.save")) /\ pkt.t = "PUBLISH" /\ pkt.id = inside.id
        \* recorded before the first byte: the save step of this call has happened (the record itself may already be gone again:
        \* a publish saved while the processor reads the session for its resend phase is resent, acknowledged and deleted
        \* before the call's own transmission - found by ClientMC)
        /\ G("C09", "SaveBeforeFirstByte", inside.pc = "send")
        /\ G("C09", "PublishIntact", SameMsg(pkt.msg, inside.arg) /\ pkt.msg.q = inside.arg.q /\ pkt.msg.ret = inside.arg.ret /\ ~pkt.dup)
        /\ UNCHANGED <<futs, nfut>>
        /\ inside' = [inside EXCEPT !.pc = "done"]
     \/ /\ In("publish", "start") /\ inside.arg.q = 0 /\ pkt.t = "PUBLISH" /\ pkt.id = 0
        /\ G("C09", "SaveBeforeFirstByte", pkt.msg.q = 0)
        /\ G("C09", "PublishIntact", SameMsg(pkt.msg, inside.arg) /\ pkt.msg.ret = inside.arg.ret)
        /\ futs' = futs \cup {NewFut("publish", 0, FALSE, "completed")}     \* QoS 0: completed once handed to the connection
        /\ nfut' = nfut + 1
        /\ inside' = [inside EXCEPT !.pc = "done", !.fut = nfut + 1]
     \/ /\ In("subscribe", "send") /\ pkt.t = "SUBSCRIBE" /\ pkt.id = inside.id
        /\ UNCHANGED <<futs, nfut>> /\ inside' = [inside EXCEPT !.pc = "done"]
     \/ /\ In("unsubscribe", "send") /\ pkt.t = "UNSUBSCRIBE" /\ pkt.id = inside.id
        /\ UNCHANGED <<futs, nfut>> /\ inside' = [inside EXCEPT !.pc = "done"]
  /\ Wire(c, pkt)
  /\ UNCHANGED <<link, down, obj, proc, waiting, sessC, fname, cfg, obs>>

\* buffered send accepted after the connection ended (BaseConn's asynchronous writer): the packet is lost
ApiSendBuffered(c, pkt) ==
  /\ c = obj.conn /\ link[c] # "up"
  /\ \/ In("publish", "send") \/ In("subscribe", "send") \/ In("unsubscribe", "send") \/ (In("publish", "start") /\ inside.arg.q = 0)
  /\ IF In("publish", "start")
     THEN futs' = futs \cup {NewFut("publish", 0, FALSE, "completed")} /\ nfut' = nfut + 1 /\ inside' = [inside EXCEPT !.pc = "done", !.fut = nfut + 1]
     ELSE UNCHANGED <<futs, nfut>> /\ inside' = [inside EXCEPT !.pc = "done"]
  /\ UNCHANGED <<link, up, down, obj, proc, waiting, sessC, fname, cfg, obs>>

\* a send of an API call failed: cleanup(err, closeConn = false); the call returns the error, no future
ApiSendFail(c) ==
  /\ c = obj.conn /\ link[c] # "up"
  /\ \/ In("publish", "send") \/ In("subscribe", "send") \/ In("unsubscribe", "send") \/ (In("publish", "start") /\ inside.arg.q = 0)
  /\ GClose(c)
  /\ futs' = Cleared(futs, FALSE)
  /\ obj' = [obj EXCEPT !.state = "disconnected"]
  /\ inside' = [inside EXCEPT !.pc = IF obj.clean THEN "fail.reset" ELSE "failed", !.fut = 0]
  /\ UNCHANGED <<up, down, proc, waiting, sessC, fname, nfut, cfg, obs>>

\* Disconnect: send DISCONNECT, then end(); Close: end()
SendDisconnect(c, pkt) ==
  /\ In("disconnect", "start") /\ c = obj.conn /\ pkt.t = "DISCONNECT"
  /\ Wire(c, pkt)
  /\ obj' = [obj EXCEPT !.state = "disconnecting"]
  /\ inside' = [inside EXCEPT !.pc = "end.close"]
  /\ UNCHANGED <<link, down, proc, waiting, sessC, futs, fname, nfut, cfg, obs>>

SendDisconnectFail(c) ==
  /\ In("disconnect", "start") /\ c = obj.conn /\ link[c] # "up"
  /\ GClose(c)
  /\ obj' = [obj EXCEPT !.state = "disconnecting"]
  /\ inside' = [inside EXCEPT !.pc = "end.close"]
  /\ UNCHANGED <<up, down, proc, waiting, sessC, futs, fname, nfut, cfg, obs>>

\* conn.Close() by cleanup: of end() (Close/Disconnect), of a failed API call, or of the dying processor
CClose(c) ==
  /\ c = obj.conn
  /\ \/ /\ \/ In("close", "start") \/ inside.pc = "end.close"
        /\ inside' = [inside EXCEPT !.pc = IF obj.clean THEN "end.reset" ELSE "end.wait"]
        /\ futs' = Cleared(futs, obj.state = "connecting")
        /\ obj' = [obj EXCEPT !.state = "disconnected"]
        /\ UNCHANGED proc
     \/ /\ inside.pc = "fail.close"
        /\ inside' = [inside EXCEPT !.pc = IF obj.clean THEN "fail.reset" ELSE "failed"]
        /\ UNCHANGED <<futs, obj, proc>>
     \/ /\ proc.pc = "die.close"
        /\ G("C09", "DieOnlyOnce", ~obj.died)
        /\ proc' = [proc EXCEPT !.pc = IF obj.clean THEN "die.reset" ELSE "die.cb"]
        /\ futs' = Cleared(futs, obj.state = "connecting")
        /\ obj' = [obj EXCEPT !.state = "disconnected", !.died = TRUE]
        /\ UNCHANGED inside
  /\ GClose(c)
  /\ UNCHANGED <<up, down, waiting, sessC, fname, nfut, cfg, obs>>

\* silent: cleanup() cancels the connect future and sets the state BEFORE it closes the connection (a CONNACK processed in between
\* is ignored, an API call entering in between is refused)
CleanupEarly ==
  /\ obj.state # "disconnected"
  /\ In("close", "start") \/ inside.pc = "end.close" \/ proc.pc = "die.close"
  /\ futs' = {IF f.n = obj.connfut /\ f.st = "pending" /\ obj.state = "connecting" THEN [f EXCEPT !.st = "cancelled"] ELSE f : f \in futs}
  /\ obj' = [obj EXCEPT !.state = "disconnected"]
  /\ UNCHANGED <<link, up, down, proc, inside, waiting, sessC, fname, nfut, cfg, obs>>

\* end(): tomb.Wait returned - the processor has ended (silent)
EndWaitDone ==
  /\ inside.pc = "end.wait" /\ proc.pc \in {"off", "dead"}
  /\ inside' = [inside EXCEPT !.pc = "done"]
  /\ UNCHANGED <<link, up, down, obj, proc, waiting, sessC, futs, fname, nfut, cfg, obs>>

----------------------------------------------------------------------------
(* Processor *)

\* die(err, closeConn = false) begins: state, future store and connect future are cleaned up at once (no event of its own)
DieNoClose(c) ==
  /\ futs' = Cleared(futs, obj.state = "connecting")
  /\ obj' = [obj EXCEPT !.state = "disconnected", !.died = TRUE]

CRecv(c, pkt) ==
  /\ c = obj.conn /\ link[c] \in {"up", "pclosed"} /\ down[c] # <<>> /\ Head(down[c]) = pkt
  \* (the resend phase after CONNACK belongs to C09, everything else about handling inbound packets to C10)
  /\ G(IF proc.pc \in {"resend", "resendlist"} THEN "C09" ELSE "C10", "PreviousPacketFullyHandled", proc.pc = "recv")
  /\ down' = [down EXCEPT ![c] = Tail(@)]
  /\ LET t == pkt.t IN
     IF obj.first THEN
        IF t # "CONNACK" THEN proc' = [proc EXCEPT !.pc = "die.close", !.pkt = pkt] /\ obj' = [obj EXCEPT !.first = FALSE] /\ UNCHANGED futs
        ELSE IF obj.state # "connecting" THEN proc' = [proc EXCEPT !.pkt = pkt] /\ obj' = [obj EXCEPT !.first = FALSE] /\ UNCHANGED futs
        ELSE IF pkt.rc # 0 THEN /\ proc' = [proc EXCEPT !.pc = "die.close", !.pkt = pkt, !.cont = TRUE]
                                /\ obj' = [obj EXCEPT !.first = FALSE, !.state = "connacked"]
                                /\ futs' = {IF f.n = obj.connfut THEN [f EXCEPT !.st = "cancelled"] ELSE f : f \in futs}
        ELSE /\ proc' = [proc EXCEPT !.pc = "resendlist", !.pkt = pkt]
             /\ obj' = [obj EXCEPT !.first = FALSE, !.state = "connected"]
             /\ futs' = {IF f.n = obj.connfut THEN [f EXCEPT !.st = "completed"] ELSE f : f \in futs}
     ELSE /\ UNCHANGED <<obj, futs>>
          /\ proc' = [proc EXCEPT !.pkt = pkt, !.rel = FALSE, !.cont = FALSE, !.pc =
               CASE t = "SUBACK" -> "suback" [] t = "UNSUBACK" -> "unsuback"
                 [] t = "PUBLISH" -> (IF pkt.msg.q <= 1 \/ cfg.early THEN "cb" ELSE "in.save")
                 [] t \in {"PUBACK", "PUBCOMP"} -> "ack"
                 [] t = "PUBREC" -> "rec"
                 [] t = "PUBREL" -> (IF pkt.id = 0 THEN "recv" ELSE "rel")
                 [] OTHER -> "recv"]
  /\ UNCHANGED <<link, up, inside, waiting, sessC, fname, nfut, cfg, obs>>

CRecvErr(c) ==
  /\ c = obj.conn /\ proc.pc = "recv"
  /\ link[c] \in {"gclosed", "dead"} \/ (link[c] = "pclosed" /\ down[c] = <<>>)
  /\ GClose(c)
  /\ IF obj.state \in {"disconnecting", "disconnected"}
     THEN proc' = [proc EXCEPT !.pc = "dead"] /\ UNCHANGED <<obj, futs>>                 \* ends quietly: the client is already being closed
     ELSE /\ G("C09", "DieOnlyOnce", ~obj.died)
          /\ DieNoClose(c)
          /\ proc' = [proc EXCEPT !.pc = IF obj.clean THEN "die.reset" ELSE "die.cb"]
  /\ UNCHANGED <<up, down, inside, waiting, sessC, fname, nfut, cfg, obs>>

\* the error callback ends die()
CbErr ==
  /\ proc.pc \in {"die.cb", "die.close"}
  \* die(err, close): the connection is closed before the application hears about the error (a refused message is redelivered only then)
  /\ G("C09,C10", "ConnectionClosedBeforeErrorCallback", proc.pc = "die.cb")
  /\ proc' = [proc EXCEPT !.pc = IF proc.cont THEN "recv" ELSE "dead"]
  /\ UNCHANGED <<link, up, down, obj, inside, waiting, sessC, futs, fname, nfut, cfg, obs>>

\* resend after CONNACK: everything still recorded, in the original order, publishes flagged duplicate
ResendList(list, err) ==
  /\ proc.pc = "resendlist"
  /\ LET model == [i \in 1..Len(sessC.out) |-> [id |-> sessC.out[i].id, k |-> sessC.out[i].k]]
         got == [i \in 1..Len(list) |-> [id |-> list[i].id, k |-> IF list[i].t = "PUBREL" THEN "rel" ELSE "pub"]]
         Proj(seq, k) == SelectSeq(seq, LAMBDA x : x.k = k)
     IN IF err # "" THEN proc' = [proc EXCEPT !.pc = "die.close", !.cont = TRUE]      \* (errors inside processConnack do not end the receive loop)
        ELSE /\ G("C09", "ResendEverythingRecorded", SeqSet(got) = SeqSet(model) /\ Len(got) = Len(model))
             /\ G("C15", "ResendInOriginalOrder", Proj(got, "pub") = Proj(model, "pub") /\ Proj(got, "rel") = Proj(model, "rel"))
             /\ proc' = [proc EXCEPT !.pc = IF got = <<>> THEN "recv" ELSE "resend", !.list = got]
  /\ UNCHANGED <<link, up, down, obj, inside, waiting, sessC, futs, fname, nfut, cfg, obs>>

ResendOne(c, pkt) ==
  /\ c = obj.conn /\ proc.pc = "resend"
  /\ LET e == Head(proc.list) IN
     /\ G("C09", "ResendMatchesRecorded", pkt.id = e.id /\ (IF e.k = "rel" THEN pkt.t = "PUBREL" ELSE pkt.t = "PUBLISH"))
     /\ G("C09", "ResendFlaggedDuplicate", e.k = "pub" => pkt.dup)
  /\ Wire(c, pkt)
  /\ proc' = [proc EXCEPT !.list = Tail(@), !.pc = IF Len(proc.list) = 1 THEN "recv" ELSE "resend"]
  /\ UNCHANGED <<link, down, obj, inside, waiting, sessC, futs, fname, nfut, cfg, obs>>

\* acknowledgement of something the client sent: the recorded packet is deleted, the future completes
OutDelete(id, err) ==
  /\ proc.pc \in {"suback", "unsuback", "ack"} /\ id = proc.pkt.id
  /\ G("C09", "KeepUntilAck", TRUE)
  /\ IF err # "" THEN proc' = [proc EXCEPT !.pc = "die.close"] /\ UNCHANGED <<sessC, futs>>
     ELSE /\ sessC' = [sessC EXCEPT !.out = SelectSeq(@, LAMBDA x : x.id # id)]
          /\ LET failed == proc.pc = "suback" /\ cfg.validate /\ 128 \in SeqSet(proc.pkt.codes)
                 known == \E f \in futs : f.stored /\ f.id = id IN
             /\ futs' = IF failed THEN Cancel1(futs, id) ELSE Complete(futs, id)
             /\ proc' = [proc EXCEPT !.pc = IF failed /\ known THEN "die.close" ELSE "recv"]
  /\ UNCHANGED <<link, up, down, obj, inside, waiting, fname, nfut, cfg, obs>>

OutSaveRel(pkt, err) ==
  /\ proc.pc = "rec" /\ pkt.t = "PUBREL" /\ pkt.id = proc.pkt.id
  /\ IF err # "" THEN proc' = [proc EXCEPT !.pc = "die.close"] /\ UNCHANGED sessC
     ELSE /\ sessC' = [sessC EXCEPT !.out = IF pkt.id \in OutIds THEN [i \in 1..Len(@) |-> IF @[i].id = pkt.id THEN [@[i] EXCEPT !.k = "rel"] ELSE @[i]]
                                             ELSE Append(@, [id |-> pkt.id, k |-> "rel", msg |-> NoMsg])]
          /\ proc' = [proc EXCEPT !.pc = "pubrel"]
  /\ UNCHANGED <<link, up, down, obj, inside, waiting, futs, fname, nfut, cfg, obs>>

\* the application callback (message)
CbCall(msg, n, ret) ==
  /\ proc.pc = "cb"
  /\ LET q == msg.q IN
     /\ IF proc.rel
        THEN /\ G("C10", "Q2CallbackOncePerHandshake", \E x \in sessC.inc : x.id = proc.pkt.id /\ SameMsg(x.msg, msg))
             /\ proc' = [proc EXCEPT !.pc = IF ret = "" THEN "rel.del" ELSE "die.close"]
        ELSE /\ G("C10", "PassedOnAsReceived", SameMsg(msg, proc.pkt.msg) /\ q = proc.pkt.msg.q)
             /\ proc' = [proc EXCEPT !.pc = IF ret # "" THEN "die.close"
                                            ELSE IF q = 0 THEN "recv" ELSE IF q = 1 THEN "puback" ELSE "in.save"]
  /\ UNCHANGED <<link, up, down, obj, inside, waiting, sessC, futs, fname, nfut, cfg, obs>>

IncSave(pkt, err) ==
  /\ proc.pc = "in.save" /\ pkt.t = "PUBLISH" /\ pkt.id = proc.pkt.id
  /\ IF err # "" THEN proc' = [proc EXCEPT !.pc = "die.close"] /\ UNCHANGED sessC
     ELSE /\ sessC' = [sessC EXCEPT !.inc = {x \in @ : x.id # pkt.id} \cup {[id |-> pkt.id, msg |-> pkt.msg]}]
          /\ proc' = [proc EXCEPT !.pc = "pubrec"]
  /\ UNCHANGED <<link, up, down, obj, inside, waiting, futs, fname, nfut, cfg, obs>>

IncLookup(id, found, err) ==
  /\ proc.pc = "rel" /\ id = proc.pkt.id
  /\ IF err # "" THEN proc' = [proc EXCEPT !.pc = "die.close"]
     ELSE /\ G("C10", "LookupSeesStore", (found.t = "PUBLISH") = (id \in IncIds))
          /\ proc' = [proc EXCEPT !.rel = TRUE, !.pc = IF found.t # "PUBLISH" THEN "pubcomp" ELSE IF cfg.early THEN "rel.del" ELSE "cb"]
  /\ UNCHANGED <<link, up, down, obj, inside, waiting, sessC, futs, fname, nfut, cfg, obs>>

IncDelete(id, err) ==
  /\ id = proc.pkt.id
  /\ G("C10", "ReleasedBeforePubcomp", proc.pc = "rel.del")       \* the message is removed before the PUBCOMP is written
  /\ IF err # "" THEN proc' = [proc EXCEPT !.pc = "die.close"] /\ UNCHANGED sessC
     ELSE sessC' = [sessC EXCEPT !.inc = {x \in @ : x.id # id}] /\ proc' = [proc EXCEPT !.pc = "pubcomp"]
  /\ UNCHANGED <<link, up, down, obj, inside, waiting, futs, fname, nfut, cfg, obs>>

\* acknowledgements written by the processor
ProcSend(c, pkt) ==
  /\ c = obj.conn
  /\ \/ /\ pkt.t = "PUBACK" /\ G("C10", "PubackAfterCallbackOk", proc.pc = "puback") /\ pkt.id = proc.pkt.id
     \/ /\ pkt.t = "PUBREC" /\ G("C10", "PubrecAfterRecorded", proc.pc = "pubrec") /\ pkt.id = proc.pkt.id
     \/ /\ pkt.t = "PUBCOMP" /\ G("C10", "PubcompAfterRelease", proc.pc = "pubcomp") /\ pkt.id = proc.pkt.id
     \/ /\ pkt.t = "PUBREL" /\ G("C09", "PubrelAfterRecorded", proc.pc = "pubrel") /\ pkt.id = proc.pkt.id
  /\ Wire(c, pkt)
  /\ proc' = [proc EXCEPT !.pc = "recv"]
  /\ UNCHANGED <<link, down, obj, inside, waiting, sessC, futs, fname, nfut, cfg, obs>>

ProcSendFail(c) ==
  /\ c = obj.conn /\ link[c] # "up"
  /\ proc.pc \in {"puback", "pubrec", "pubcomp", "pubrel", "resend"}
  /\ GClose(c)
  /\ G("C09", "DieOnlyOnce", ~obj.died)
  /\ DieNoClose(c)
  /\ proc' = [proc EXCEPT !.pc = IF obj.clean THEN "die.reset" ELSE "die.cb", !.cont = (proc.pc = "resend")]
  /\ UNCHANGED <<up, down, inside, waiting, sessC, fname, nfut, cfg, obs>>

\* a buffered acknowledgement accepted after the connection ended
ProcSendBuffered(c, pkt) ==
  /\ c = obj.conn /\ link[c] # "up"
  /\ proc.pc \in {"puback", "pubrec", "pubcomp", "pubrel", "resend"}
  /\ proc' = [proc EXCEPT !.pc = IF proc.pc = "resend" /\ Len(proc.list) > 1 THEN "resend" ELSE "recv", !.list = IF proc.pc = "resend" THEN Tail(@) ELSE @]
  /\ UNCHANGED <<link, up, down, obj, inside, waiting, sessC, futs, fname, nfut, cfg, obs>>

\* a waiter observed a future's resolution
FutDone(f, st) ==
  /\ IF \E p \in fname : p[1] = f
     THEN (\E p \in fname : p[1] = f /\ \E x \in futs : x.n = p[2] /\ G("C09", "FutureResolvesTruthfully", x.st = st)) /\ obs' = obs
     ELSE obs' = obs \cup {<<f, st>>}          \* the API call has not returned yet: checked when the name is bound
  /\ UNCHANGED <<link, up, down, obj, proc, inside, waiting, sessC, futs, fname, nfut, cfg>>

\* the scenario ran to quiescence
Settled(pending, stuck) ==
  /\ G("C09", "EveryCallReturns", stuck = <<>> /\ inside = NoCall /\ waiting = {})
  /\ G("C09", "UnresolvedFuturesOnlyWhileConnected",
       \A i \in 1..Len(pending) : \E p \in fname : p[1] = pending[i] /\ \E x \in futs : x.n = p[2] /\ x.st = "pending" /\ x.stored /\ (~Ended \/ (x.late /\ "ClientDieVsApiRace" \in Dev)))
  /\ G("C10", "EveryPacketHandled", proc.pc \in {"recv", "dead", "off"})
  /\ G("C09", "ProcessorEndedWithClient", Ended => proc.pc \in {"dead", "off"})
=============================================================================
