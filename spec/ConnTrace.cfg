SPECIFICATION TSpec
CONSTANTS
  Senders = {"p1", "p2", "p3", "g1", "g2", "g3", "g4", "g5", "g6", "g7", "g8", "g9", "g10", "g11", "g12", "g13", "g14", "g15", "g16"}
  PerSender = 999
  Enc <- NoEnc
  SyncOf <- NoSync
  Delay0s = {FALSE}
  MaxCloses = 999
  FeedLens <- NoFeed
  MaxRecvs = 9999
  Faults = 999
  Oracle <- TrOracle
  LateBytes = TRUE
  Report = TRUE
  Dev = {}
CONSTRAINT HW
POSTCONDITION PostReport
CHECK_DEADLOCK FALSE
