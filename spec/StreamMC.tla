------------------------------ MODULE StreamMC ------------------------------
EXTENDS Stream
\* packets of length 2, 3, 4, 130 and 16385 (1-, 2- and 3-byte remaining length: header of 2, 3 or 4 bytes)
P2 == [len |-> 2, hl |-> 2, valid |-> TRUE]
P3 == [len |-> 3, hl |-> 2, valid |-> TRUE]
P4 == [len |-> 4, hl |-> 2, valid |-> TRUE]
P130 == [len |-> 130, hl |-> 3, valid |-> TRUE]
P16K == [len |-> 16388, hl |-> 4, valid |-> TRUE]
PBad == [len |-> 2, hl |-> 2, valid |-> FALSE]
MCPkts == @@PKTS@@
MCCuts == @@CUTS@@
MCLimits == @@LIMITS@@
MCSteps == @@STEPS@@
=============================================================================
