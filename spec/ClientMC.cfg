SPECIFICATION MCSpec
CONSTANTS
  Conns = {"k1", "k2", "k3"}
  Report = FALSE
  Dev = {@@DEV@@}
  App <- MCApp
  BrokerSends <- MCBroker
  Refuse = {@@REFUSE@@}
  MaxCuts = @@CUTS@@
INVARIANTS @@INV@@
PROPERTIES @@PROPS@@
CHECK_DEADLOCK FALSE
