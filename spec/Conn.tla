-------------------------------- MODULE Conn --------------------------------
(***************************************************************************)
(* transport.BaseConn with everything between it and the carrier (C19):     *)
(*   Send    = sendMutex; packet.Encoder.Write -> mercury.Writer.write       *)
(*             (writer mutex, one-shot asynchronous error, buffered writer   *)
(*             with sticky error, flush when asked to or when the delay is   *)
(*             zero, flush timer arm/stop); carrier.Close on error           *)
(*   timer   = mercury.Writer.flush (time.AfterFunc callback; a callback     *)
(*             that Stop() missed still runs)                                *)
(*   Close   = sendMutex; stream.Flush; carrier.Close                        *)
(*   Receive = decoder over the carrier (abstract: bytes arrived/packets     *)
(*             delivered), deadline reset, carrier.Close on error            *)
(* One action per step that ends in an observable event (carrier write,     *)
(* carrier close, call, return); lock acquisitions are merged into the next  *)
(* step of the same thread (they are right-movers).  The buffered writer is  *)
(* abstract in one respect: whoever is inside it may hand any prefix of the  *)
(* buffer to the carrier (bufio does so when the buffer overflows); what is  *)
(* fixed is the ORDER of the byte stream and what must have reached the      *)
(* carrier when a flushed Send, the timer or Close is done.  Packets are     *)
(* sequences of "units": bytes when validating traces, <<s, i, j>> triples   *)
(* when model checking (so that wholeness and order are visible).            *)
(***************************************************************************)
EXTENDS Integers, Sequences, FiniteSets, TLC

CONSTANTS Senders,        \* sender ids
          PerSender,      \* sends per sender
          Enc(_, _),      \* model checking: units of packet i of sender s
          SyncOf(_, _),   \* model checking: is send i of sender s flushed?
          Delay0s,        \* possible values of "max write delay = 0" (every write flushes)
          MaxCloses,      \* Close calls
          FeedLens,       \* lengths of the packets the peer sends towards the receiver
          MaxRecvs,       \* Receive calls
          Faults,         \* injected carrier write failures (budget)
          LateBytes,      \* TRUE when validating traces of real sockets (see WriteSome)
          Oracle(_, _),   \* trace validation: prophecy from the recorded wire (TRUE when model checking)
          Report, Dev

G(tag, name, cond) ==
  IF cond THEN TRUE
  ELSE (IF Report THEN PrintT(<<"GUARD-FAILED", tag, name, TLCGet(2)>>) ELSE TRUE) /\ FALSE

VARIABLES
  mtx,      \* sendMutex: "none" | sender | "closer"
  wmtx,     \* mercury.Writer.mutex: "none" | sender | "closer" | "timer"
  spc,      \* [Senders -> "idle" | "called" | "copy" | "half" | "flush" | "closing" | "ret"]
  cur,      \* [Senders -> index of the current send]
  penc,     \* [Senders -> units of the packet being sent]
  psync,    \* [Senders -> flushed send?]
  res,      \* [Senders -> "none" | "ok" | "err"]
  late,     \* [Senders -> the carrier was already closed / a timer flush had already failed when the call began]
  d0,       \* max write delay is zero
  buf,      \* units accepted by the buffered writer, not yet handed to the carrier
  werr,     \* mercury's one-shot asynchronous error
  berr,     \* the buffered writer's sticky error
  tset,     \* w.timer # nil
  tpend,    \* timer callbacks that will still run
  tpc,      \* timer callback: "idle" | "flush"
  tfailed,  \* a timer flush has failed
  nacc,     \* units accepted by the buffered writer so far
  wire,     \* units the carrier accepted
  carrier,  \* "open" | "closed"
  fbudget,  \* injected failures left
  wfail,    \* some carrier write failed
  cpc,      \* closer: "idle" | "called" | "flush" | "close" | "ret"
  cerr,     \* closer's error
  ncloses,  \* completed Close calls
  accepted, \* sends that returned nil before the first Close was called
  done,     \* finished sends: [s, i, sync, late, afterfail, res]
  rpc,      \* receiver: "idle" | "called" | "got" | "failing"
  rin,      \* bytes the carrier handed to the decoder
  rdel,     \* packets consumed from those bytes
  rerrp,    \* a read (or deadline reset) failed during this call
  net,      \* bytes the peer has sent, not yet read
  rclosed,  \* the peer closed its side
  nrecv,    \* completed Receive calls
  flens,    \* lengths of the packets the peer sends (fixed during a behaviour)
  nfed      \* how many of them it has sent

svars == <<spc, cur, penc, psync, res, late>>
wvars == <<buf, werr, berr, nacc>>
tvars == <<tset, tpend, tpc, tfailed>>
kvars == <<wire, fbudget, wfail>>
lvars == <<mtx, wmtx>>
cvars == <<cpc, cerr, ncloses>>
rvars == <<rpc, rin, rdel, rerrp, net, rclosed, nrecv, flens, nfed>>
vars == <<svars, wvars, tvars, kvars, lvars, cvars, rvars, carrier, accepted, done, d0>>

Init ==
  /\ mtx = "none" /\ wmtx = "none"
  /\ spc = [s \in Senders |-> "idle"] /\ cur = [s \in Senders |-> 1]
  /\ penc = [s \in Senders |-> <<>>] /\ psync = [s \in Senders |-> FALSE]
  /\ res = [s \in Senders |-> "none"] /\ late = [s \in Senders |-> [closed |-> FALSE, failed |-> FALSE]]
  /\ d0 \in Delay0s
  /\ buf = <<>> /\ werr = FALSE /\ berr = FALSE /\ nacc = 0
  /\ tset = FALSE /\ tpend = 0 /\ tpc = "idle" /\ tfailed = FALSE
  /\ wire = <<>> /\ carrier = "open" /\ fbudget = Faults /\ wfail = FALSE
  /\ cpc = "idle" /\ cerr = FALSE /\ ncloses = 0 /\ accepted = {} /\ done = {}
  /\ rpc = "idle" /\ rin = 0 /\ rdel = 0 /\ rerrp = FALSE /\ net = 0 /\ rclosed = FALSE /\ nrecv = 0 /\ flens = FeedLens /\ nfed = 0

Rest(q, n) == SubSeq(q, n + 1, Len(q))
NoSM == "NoSendMutex" \in Dev
NoWM == "NoWriterMutex" \in Dev
Release(m, who) == IF m = who THEN "none" ELSE m

\* mercury.Writer.write, after the data: arm the timer when something is buffered, stop it when nothing is
TimerMgmt(b) ==
  IF Len(b) > 0 /\ ~tset THEN tset' = TRUE /\ tpend' = tpend + 1
  ELSE IF Len(b) = 0 /\ tset THEN tset' = FALSE /\ tpend' \in {tpend, IF tpend > 0 THEN tpend - 1 ELSE 0}   \* Stop() may come too late
  ELSE UNCHANGED <<tset, tpend>>

(* ------------------------------ Send ------------------------------ *)
Call(s, enc, sync) ==
  /\ spc[s] = "idle" /\ cur[s] <= PerSender
  /\ spc' = [spc EXCEPT ![s] = "called"] /\ penc' = [penc EXCEPT ![s] = enc] /\ psync' = [psync EXCEPT ![s] = sync]
  /\ late' = [late EXCEPT ![s] = [closed |-> carrier = "closed", failed |-> tfailed]] /\ res' = [res EXCEPT ![s] = "none"]
  /\ UNCHANGED <<cur, wvars, tvars, kvars, lvars, cvars, rvars, carrier, accepted, done, d0>>

\* sendMutex, then the writer's mutex and its pending asynchronous error
Begin(s) ==
  /\ spc[s] = "called" /\ (mtx = "none" \/ NoSM) /\ (wmtx = "none" \/ NoWM)
  /\ mtx' = IF NoSM THEN mtx ELSE s
  /\ IF werr
     THEN /\ werr' = FALSE /\ res' = [res EXCEPT ![s] = "err"] /\ spc' = [spc EXCEPT ![s] = "closing"]
          /\ UNCHANGED wmtx
     ELSE /\ Oracle(nacc, penc[s])
          /\ spc' = [spc EXCEPT ![s] = "copy"] /\ wmtx' = IF NoWM THEN wmtx ELSE s
          /\ UNCHANGED <<werr, res>>
  /\ UNCHANGED <<cur, penc, psync, late, buf, berr, nacc, tvars, kvars, cvars, rvars, carrier, accepted, done, d0>>

\* the packet enters the buffered writer (in two halves: without the writer's mutex they could interleave); sticky error first
Append1(s) ==
  /\ spc[s] = "copy"
  /\ IF berr
     THEN /\ res' = [res EXCEPT ![s] = "err"] /\ spc' = [spc EXCEPT ![s] = "closing"] /\ wmtx' = Release(wmtx, s)
          /\ UNCHANGED <<buf, nacc>>
     ELSE /\ buf' = Append(buf, Head(penc[s])) /\ nacc' = nacc + 1 /\ spc' = [spc EXCEPT ![s] = "half"]
          /\ UNCHANGED <<res, wmtx>>
  /\ UNCHANGED <<cur, penc, psync, late, werr, berr, tvars, kvars, mtx, cvars, rvars, carrier, accepted, done, d0>>
Append2(s) ==
  /\ spc[s] = "half"
  /\ buf' = buf \o Tail(penc[s]) /\ nacc' = nacc + Len(penc[s]) - 1 /\ spc' = [spc EXCEPT ![s] = "flush"]
  /\ UNCHANGED <<cur, penc, psync, res, late, werr, berr, tvars, kvars, lvars, cvars, rvars, carrier, accepted, done, d0>>

\* whoever is inside the writer hands the first k buffered units to the carrier: all accepted (ok) or acc of them and an error
Inside(who) == IF who = "timer" THEN tpc = "flush" ELSE IF who = "closer" THEN cpc = "flush" ELSE spc[who] \in {"half", "flush"}
WriteSome(who, k, ok, acc) ==
  /\ Inside(who) /\ ~berr /\ k \in 1..Len(buf) /\ acc \in 0..k
  /\ ok => (carrier = "open" /\ acc = k)
  /\ carrier # "open" => (~ok /\ (acc = 0 \/ LateBytes))   \* (a write blocked by back pressure when the carrier was closed may have placed a part of its data: real sockets only)
  /\ fbudget' = IF ~ok /\ carrier = "open" THEN fbudget - 1 ELSE fbudget
  /\ fbudget' >= 0
  /\ wire' = wire \o SubSeq(buf, 1, acc) /\ buf' = Rest(buf, acc)
  /\ berr' = ~ok /\ wfail' = (wfail \/ ~ok)
  /\ UNCHANGED <<svars, werr, nacc, tvars, lvars, cvars, rvars, carrier, accepted, done, d0>>

MustFlush(s) == psync[s] \/ d0
\* end of mercury.Writer.write: a flushed write has emptied the buffer
WriteEnd(s) ==
  /\ spc[s] = "flush"
  /\ IF berr
     THEN /\ res' = [res EXCEPT ![s] = "err"] /\ spc' = [spc EXCEPT ![s] = "closing"] /\ wmtx' = Release(wmtx, s)
          /\ UNCHANGED <<mtx, tset, tpend>>
     ELSE /\ MustFlush(s) => Len(buf) = 0
          /\ TimerMgmt(buf)
          /\ res' = [res EXCEPT ![s] = "ok"] /\ spc' = [spc EXCEPT ![s] = "ret"]
          /\ wmtx' = Release(wmtx, s) /\ mtx' = Release(mtx, s)
  /\ UNCHANGED <<cur, penc, psync, late, wvars, tpc, tfailed, kvars, cvars, rvars, carrier, accepted, done, d0>>

\* failure: BaseConn.Send closes the carrier before it returns
SClose(s) ==
  /\ spc[s] = "closing"
  /\ carrier' = "closed" /\ spc' = [spc EXCEPT ![s] = "ret"]
  /\ mtx' = Release(mtx, s)
  /\ UNCHANGED <<cur, penc, psync, res, late, wvars, tvars, kvars, wmtx, cvars, rvars, accepted, done, d0>>

Ret(s) ==
  /\ spc[s] = "ret"
  /\ done' = done \cup {[s |-> s, i |-> cur[s], sync |-> MustFlush(s), late |-> late[s].closed, afterfail |-> late[s].failed, res |-> res[s]]}
  /\ accepted' = IF res[s] = "ok" /\ cpc = "idle" /\ ncloses = 0 THEN accepted \cup {<<s, cur[s]>>} ELSE accepted
  /\ cur' = [cur EXCEPT ![s] = @ + 1] /\ spc' = [spc EXCEPT ![s] = "idle"]
  /\ UNCHANGED <<penc, psync, res, late, wvars, tvars, kvars, lvars, cvars, rvars, carrier, d0>>

(* --------------------------- flush timer --------------------------- *)
Sticky == "NoStickyError" \notin Dev
TimerQuiet ==
  /\ tpend > 0 /\ tpc = "idle" /\ (wmtx = "none" \/ NoWM) /\ (berr \/ Len(buf) = 0)
  /\ tpend' = tpend - 1 /\ tset' = FALSE
  /\ werr' = (werr \/ (berr /\ Sticky))
  /\ UNCHANGED <<svars, buf, berr, nacc, tpc, tfailed, kvars, lvars, cvars, rvars, carrier, accepted, done, d0>>
TimerBegin ==
  /\ tpend > 0 /\ tpc = "idle" /\ (wmtx = "none" \/ NoWM) /\ ~berr /\ Len(buf) > 0
  /\ tpend' = tpend - 1 /\ tset' = FALSE /\ tpc' = "flush" /\ wmtx' = IF NoWM THEN wmtx ELSE "timer"
  /\ UNCHANGED <<svars, wvars, tfailed, kvars, mtx, cvars, rvars, carrier, accepted, done, d0>>
TimerEnd ==
  /\ tpc = "flush" /\ (berr \/ Len(buf) = 0)
  /\ tpc' = "idle" /\ wmtx' = Release(wmtx, "timer")
  /\ tfailed' = (tfailed \/ berr)
  /\ IF Sticky THEN werr' = (werr \/ berr) /\ UNCHANGED <<berr, buf>>
     ELSE werr' = werr /\ berr' = FALSE /\ buf' = <<>>                    \* deviation: the error (and the data) is dropped
  /\ UNCHANGED <<svars, nacc, tset, tpend, kvars, mtx, cvars, rvars, carrier, accepted, done, d0>>

(* ------------------------------ Close ------------------------------ *)
CCall ==
  /\ cpc = "idle" /\ ncloses < MaxCloses
  /\ cpc' = "called" /\ cerr' = FALSE
  /\ UNCHANGED <<svars, wvars, tvars, kvars, lvars, ncloses, rvars, carrier, accepted, done, d0>>
CBegin ==
  /\ cpc = "called" /\ (mtx = "none" \/ "CloseSkipsMutex" \in Dev) /\ (wmtx = "none" \/ NoWM)
  /\ mtx' = IF "CloseSkipsMutex" \in Dev THEN mtx ELSE "closer"
  /\ IF "CloseNoFlush" \in Dev THEN cpc' = "close" /\ UNCHANGED <<werr, cerr, wmtx>>
     ELSE IF werr THEN werr' = FALSE /\ cerr' = TRUE /\ cpc' = "close" /\ UNCHANGED wmtx
     ELSE cpc' = "flush" /\ wmtx' = (IF NoWM THEN wmtx ELSE "closer") /\ UNCHANGED <<werr, cerr>>
  /\ UNCHANGED <<svars, buf, berr, nacc, tvars, kvars, ncloses, rvars, carrier, accepted, done, d0>>
CFlushEnd ==
  /\ cpc = "flush" /\ (berr \/ Len(buf) = 0)
  /\ cerr' = berr /\ cpc' = "close" /\ wmtx' = Release(wmtx, "closer")
  /\ IF berr THEN UNCHANGED <<tset, tpend>> ELSE TimerMgmt(buf)
  /\ UNCHANGED <<svars, wvars, tpc, tfailed, kvars, mtx, ncloses, rvars, carrier, accepted, done, d0>>
CClose(cok) ==
  /\ cpc = "close"
  /\ carrier' = "closed" /\ cerr' = (cerr \/ ~cok) /\ cpc' = "ret"
  /\ mtx' = Release(mtx, "closer")
  /\ UNCHANGED <<svars, wvars, tvars, kvars, wmtx, ncloses, rvars, accepted, done, d0>>
CRet ==
  /\ cpc = "ret"
  /\ cpc' = "idle" /\ ncloses' = ncloses + 1
  /\ UNCHANGED <<svars, wvars, tvars, kvars, lvars, cerr, rvars, carrier, accepted, done, d0>>

(* ----------------------------- Receive ----------------------------- *)
RECURSIVE Ends(_, _)
Ends(lens, off) == IF lens = <<>> THEN {} ELSE {off + Head(lens)} \cup Ends(Tail(lens), off + Head(lens))
Complete(n) == Cardinality({e \in Ends(flens, 0) : e <= n})

PeerSends ==
  /\ nfed < Len(flens) /\ ~rclosed /\ net' = net + flens[nfed + 1] /\ nfed' = nfed + 1
  /\ UNCHANGED <<svars, wvars, kvars, lvars, cvars, tvars, rpc, rin, rdel, rerrp, rclosed, nrecv, flens, carrier, accepted, done, d0>>
PeerCloses ==
  /\ ~rclosed /\ rclosed' = TRUE
  /\ UNCHANGED <<svars, wvars, kvars, lvars, cvars, tvars, rpc, rin, rdel, rerrp, net, nrecv, flens, nfed, carrier, accepted, done, d0>>
RCall ==
  /\ rpc = "idle" /\ nrecv < MaxRecvs
  /\ rpc' = "called" /\ rerrp' = FALSE
  /\ UNCHANGED <<svars, wvars, kvars, lvars, cvars, tvars, rin, rdel, net, rclosed, nrecv, flens, nfed, carrier, accepted, done, d0>>
\* one carrier read: n bytes, or an error (closed locally, end of stream, injected, deadline)
RRead(n, failed) ==
  /\ rpc = "called" /\ ~rerrp
  /\ rin' = rin + n /\ rerrp' = failed /\ net' = IF net >= n THEN net - n ELSE 0
  /\ UNCHANGED <<svars, wvars, kvars, lvars, cvars, tvars, rpc, rdel, rclosed, nrecv, flens, nfed, carrier, accepted, done, d0>>
\* what the carrier can answer
ReadAnswer(n, failed) ==
  IF carrier = "closed" THEN n = 0 /\ failed
  ELSE IF net > 0 THEN n \in 1..net /\ ~failed
  ELSE rclosed /\ n = 0 /\ failed
RReadM == \E n \in 0..net, f \in BOOLEAN : ReadAnswer(n, f) /\ RRead(n, f)
\* a whole packet is buffered: the deadline is reset and the packet returned; on a closed carrier (or with an injected
\* failure) the reset fails and the packet is dropped
RGot ==
  /\ rpc = "called" /\ Complete(rin) > rdel /\ carrier = "open"
  /\ rdel' = rdel + 1 /\ rpc' = "got"
  /\ UNCHANGED <<svars, wvars, kvars, lvars, cvars, tvars, rin, rerrp, net, rclosed, nrecv, flens, nfed, carrier, accepted, done, d0>>
ROk ==
  /\ rpc = "got" /\ rpc' = "idle" /\ nrecv' = nrecv + 1
  /\ UNCHANGED <<svars, wvars, kvars, lvars, cvars, tvars, rin, rdel, rerrp, net, rclosed, flens, nfed, carrier, accepted, done, d0>>
RDropWhen(cond) ==
  /\ rpc = "called" /\ Complete(rin) > rdel /\ cond
  /\ rdel' = rdel + 1 /\ rerrp' = TRUE
  /\ UNCHANGED <<svars, wvars, kvars, lvars, cvars, tvars, rpc, rin, net, rclosed, nrecv, flens, nfed, carrier, accepted, done, d0>>
RDrop == RDropWhen(carrier = "closed")
\* the error path: carrier closed, then the call returns the error
RFailClose ==
  /\ rpc = "called" /\ rerrp
  /\ carrier' = "closed" /\ rpc' = "failing"
  /\ UNCHANGED <<svars, wvars, kvars, lvars, cvars, tvars, rin, rdel, rerrp, net, rclosed, nrecv, flens, nfed, accepted, done, d0>>
RRetErr ==
  /\ rpc = "failing" /\ rpc' = "idle" /\ nrecv' = nrecv + 1
  /\ UNCHANGED <<svars, wvars, kvars, lvars, cvars, tvars, rin, rdel, rerrp, net, rclosed, flens, nfed, carrier, accepted, done, d0>>

(* ------------------------------ system ------------------------------ *)
Writers == Senders \cup {"timer", "closer"}
SomeWrite == \E who \in Writers : \E k \in 1..Len(buf) : \E ok \in BOOLEAN : \E acc \in 0..k : WriteSome(who, k, ok, acc)
Next ==
  \/ \E s \in Senders : \/ Call(s, Enc(s, cur[s]), SyncOf(s, cur[s])) \/ Begin(s) \/ Append1(s) \/ Append2(s) \/ WriteEnd(s) \/ SClose(s) \/ Ret(s)
  \/ SomeWrite
  \/ TimerQuiet \/ TimerBegin \/ TimerEnd
  \/ CCall \/ CBegin \/ CFlushEnd \/ (\E cok \in BOOLEAN : CClose(cok)) \/ CRet
  \/ PeerSends \/ PeerCloses \/ RCall \/ RReadM \/ RGot \/ ROk \/ RDrop \/ RFailClose \/ RRetErr

\* a flushed write, the timer and Close keep writing until the buffer is empty (or the carrier fails)
MustDrain == tpc = "flush" \/ cpc = "flush" \/ \E s \in Senders : spc[s] = "flush" /\ MustFlush(s)
Fair ==
  /\ \A s \in Senders : WF_vars(Begin(s)) /\ WF_vars(Append1(s)) /\ WF_vars(Append2(s)) /\ WF_vars(WriteEnd(s))
                        /\ WF_vars(SClose(s)) /\ WF_vars(Ret(s)) /\ WF_vars(Call(s, Enc(s, cur[s]), SyncOf(s, cur[s])))
  /\ WF_vars(MustDrain /\ SomeWrite)
  /\ WF_vars(TimerQuiet) /\ WF_vars(TimerBegin) /\ WF_vars(TimerEnd)
  /\ WF_vars(CCall) /\ WF_vars(CBegin) /\ WF_vars(CFlushEnd) /\ WF_vars(\E cok \in BOOLEAN : CClose(cok)) /\ WF_vars(CRet)
  /\ WF_vars(RCall) /\ WF_vars(RReadM) /\ WF_vars(RGot) /\ WF_vars(ROk) /\ WF_vars(RDrop) /\ WF_vars(RFailClose) /\ WF_vars(RRetErr)
Spec == Init /\ [][Next]_vars /\ Fair

(* ----------------------------- properties ----------------------------- *)
\* units are <<s, i, j>> here
Whole(q) == \A x \in 1..Len(q) :
  LET u == q[x] IN
  /\ u[3] > 1 => (x > 1 /\ q[x - 1] = <<u[1], u[2], u[3] - 1>>)
  /\ (x < Len(q) /\ u[3] < Len(Enc(u[1], u[2]))) => q[x + 1] = <<u[1], u[2], u[3] + 1>>
\* concurrent sends stay whole: the wire is a prefix of a concatenation of whole packets
WireWhole == Whole(wire) /\ (~wfail => Whole(wire \o buf))
NoDuplicates == \A x, y \in 1..Len(wire) : wire[x] = wire[y] => x = y
\* packets of one sender appear in the order sent
SenderOrder == \A x, y \in 1..Len(wire) : (x < y /\ wire[x][1] = wire[y][1]) => wire[x][2] <= wire[y][2]
OnWire(s, i) == \A j \in 1..Len(Enc(s, i)) : \E x \in 1..Len(wire) : wire[x] = <<s, i, j>>
\* Close first delivers everything accepted by earlier sends (unless the carrier itself failed)
CloseFlushesAccepted == (ncloses >= 1 /\ ~wfail) => \A a \in accepted : OnWire(a[1], a[2])
\* a flushed send that succeeded is on the wire when it returns
FlushedIsOnWire == \A d \in done : (d.sync /\ d.res = "ok") => OnWire(d.s, d.i)
\* after the carrier was closed flushed sends fail at once ...
FlushedSendFailsAfterClose == \A d \in done : (d.late /\ d.sync) => d.res = "err"
\* ... and buffered sends once the flush delay has elapsed (the timer's flush has failed)
BufferedSendFailsAfterFailedFlush == \A d \in done : d.afterfail => d.res = "err"
\* any failed call leaves the carrier closed
ErrorClosesCarrier == (\A s \in Senders : (spc[s] = "ret" /\ res[s] = "err") => carrier = "closed") /\ (rpc = "failing" => carrier = "closed")
\* buffered data always has a flush scheduled
TimerCoversBuffer == (wmtx = "none" /\ Len(buf) > 0 /\ ~berr) => tpend > 0
\* a packet is delivered only when all of it has arrived, in order
NoPacketFromPartial == rdel <= Complete(rin)
MutexDiscipline == (wmtx \in Senders => (NoSM \/ mtx = wmtx)) /\ (wmtx = "closer" => mtx = "closer" \/ "CloseSkipsMutex" \in Dev)

\* no call hangs: every call returns
EveryCallReturns == <>[](\A s \in Senders : cur[s] > PerSender /\ spc[s] = "idle") /\ <>[](ncloses = MaxCloses) /\ <>[](nrecv = MaxRecvs)
\* buffered data reaches the wire or the error becomes known
EventuallyFlushed == [](Len(buf) > 0 => <>(Len(buf) = 0 \/ berr))
\* a pending receive is unblocked by a close
ReceiveUnblocked == [](carrier = "closed" /\ rpc = "called" => <>(rpc # "called"))
=============================================================================
