------------------------------- MODULE Stream -------------------------------
(***************************************************************************)
(* Design-level model of the receiving side of the byte-stream layer (C03): *)
(* packet.Decoder.Read as an incremental state machine over a byte stream    *)
(* that the network delivers in arbitrary pieces (Deliver): detection with   *)
(* 2..5 peeked bytes, read-limit check before the body is buffered, body     *)
(* read, unexpected end.  Packets are abstracted to [len, hl, valid] (total  *)
(* length, header length, decodable); content fidelity is MQTTCodec.tla's    *)
(* business, the sending side and BaseConn are in Conn.tla (C19).            *)
(***************************************************************************)
EXTENDS Integers, Sequences, FiniteSets, TLC

CONSTANTS Pkts,       \* decoder: sequence of [len, hl, valid]
          Cuts,       \* decoder: the stream ends after one of these many bytes (<= total length)
          Limits,     \* decoder: read limits (0 = none)
          Steps,      \* sizes of the pieces the network may deliver (the rest of the stream is always allowed)
          Dev         \* deviations for non-vacuity: "LimitAfterRead", "EofHidesPartial"

----------------------------------------------------------------------------
(* Part A: decoder *)
VARIABLES avail,     \* bytes delivered by the network so far
          pos,       \* bytes consumed by the decoder
          dpc,       \* "peek" | "body" | "done"
          dl,        \* detection length (2..5)
          k,         \* index of the packet being decoded
          got,       \* packets delivered to the caller
          derr,      \* "" | "eof" | "partial" | "limit" | "invalid"
          Cut,       \* where this stream ends (chosen initially)
          Limit      \* the read limit of this run (chosen initially)
dvars == <<avail, pos, dpc, dl, k, got, derr, Cut, Limit>>

RECURSIVE Sum(_, _)
Sum(s, n) == IF n = 0 THEN 0 ELSE s[n].len + Sum(s, n - 1)
Total == Sum(Pkts, Len(Pkts))
Start(i) == Sum(Pkts, i - 1)              \* offset of packet i
Ended == avail = Cut                        \* the peer closed: nothing more will arrive

DInit == Cut \in Cuts /\ Limit \in Limits /\ avail = 0 /\ pos = 0 /\ dpc = "peek" /\ dl = 2 /\ k = 1 /\ got = 0 /\ derr = ""

Deliver == /\ avail < Cut /\ \E n \in (Steps \cup {Cut - avail}) : n <= Cut - avail /\ avail' = avail + n
           /\ UNCHANGED <<pos, dpc, dl, k, got, derr>>

Finish(e) == dpc' = "done" /\ derr' = e /\ UNCHANGED <<avail, pos, dl, k, got>>

\* Peek(dl): needs dl bytes; at the end of the stream fewer bytes mean EOF (none) or an unexpected EOF (some)
Peek ==
  /\ dpc = "peek"
  /\ IF avail - pos >= dl
     THEN IF k > Len(Pkts) THEN Finish("invalid")              \* (bytes beyond the modelled packets: not generated)
          ELSE IF dl < Pkts[k].hl THEN dl' = dl + 1 /\ UNCHANGED <<avail, pos, dpc, k, got, derr>>   \* length not yet complete
          ELSE \* the packet length is known now: limit before anything else is buffered
               IF Limit > 0 /\ Pkts[k].len > Limit /\ "LimitAfterRead" \notin Dev THEN Finish("limit")
               ELSE IF ~Pkts[k].valid THEN Finish("invalid")
               ELSE dpc' = "body" /\ UNCHANGED <<avail, pos, dl, k, got, derr>>
     ELSE IF Ended THEN (IF avail - pos = 0 \/ "EofHidesPartial" \in Dev THEN Finish("eof") ELSE Finish("partial"))
     ELSE FALSE                                                      \* blocks until more bytes arrive

Body ==
  /\ dpc = "body"
  /\ IF avail - pos >= Pkts[k].len
     THEN IF Limit > 0 /\ Pkts[k].len > Limit THEN Finish("limit")      \* (only reachable with the deviation)
          ELSE /\ pos' = pos + Pkts[k].len /\ got' = got + 1 /\ k' = k + 1 /\ dl' = 2 /\ dpc' = "peek"
               /\ UNCHANGED <<avail, derr>>
     ELSE IF Ended THEN Finish("partial")
     ELSE FALSE

DPeek == Peek /\ UNCHANGED <<Cut, Limit>>
DBody == Body /\ UNCHANGED <<Cut, Limit>>
DDeliver == Deliver /\ UNCHANGED <<Cut, Limit>>
DNext == DDeliver \/ DPeek \/ DBody
DSpec == DInit /\ [][DNext]_dvars /\ WF_dvars(DPeek) /\ WF_dvars(DBody) /\ WF_dvars(DDeliver)

\* reference: what any conforming receiver obtains from the first Cut bytes, whatever the fragmentation
RECURSIVE Ref(_)
Ref(i) ==
  IF i > Len(Pkts) \/ Start(i) >= Cut THEN [n |-> i - 1, e |-> "eof"]
  ELSE IF Cut - Start(i) < Pkts[i].hl THEN [n |-> i - 1, e |-> "partial"]
  ELSE IF Limit > 0 /\ Pkts[i].len > Limit THEN [n |-> i - 1, e |-> "limit"]
  ELSE IF ~Pkts[i].valid THEN [n |-> i - 1, e |-> "invalid"]
  ELSE IF Cut - Start(i) < Pkts[i].len THEN [n |-> i - 1, e |-> "partial"]
  ELSE Ref(i + 1)

SameAsReference == dpc = "done" => (got = Ref(1).n /\ derr = Ref(1).e)
DeliveredIsPrefix == got <= Len(Pkts) /\ pos = Start(got + 1)
NoPacketFromPartial == got >= 1 => Start(got + 1) <= avail
LimitBeforeBuffer == dpc = "body" => ~(Limit > 0 /\ Pkts[k].len > Limit)      \* an oversized packet is refused before its body is awaited
DecoderTerminates == <>(dpc = "done")

Init == DInit
Next == DNext
vars == dvars
SpecD == DSpec
=============================================================================
