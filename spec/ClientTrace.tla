---------------------------- MODULE ClientTrace ----------------------------
(* Trace validation of the real client.Client against Client.tla (same scheme as BrokerTrace.tla). *)
EXTENDS Client, Json

Trace == ndJsonDeserialize("@@TRACE@@")
TraceNums == {Trace[i].tr : i \in 1..Len(Trace)}
EndIdx == [t \in TraceNums |-> CHOOSE i \in 1..Len(Trace) : Trace[i].tr = t /\ Trace[i].ev = "end"]

VARIABLES l
tvars == <<vars, l>>
E == Trace[l]
IsEvent(e) == l <= Len(Trace) /\ Trace[l].ev = e /\ TLCSet(2, l) /\ l' = l + 1
NoChange == UNCHANGED vars
TInit == Init /\ l = 1

ResetAll(clean, early, validate) ==
  /\ link' = [c \in Conns |-> "none"] /\ up' = [c \in Conns |-> <<>>] /\ down' = [c \in Conns |-> <<>>]
  /\ obj' = [Obj0 EXCEPT !.clean = clean] /\ proc' = Proc0 /\ inside' = NoCall /\ waiting' = {}
  /\ sessC' = Sess0 /\ futs' = {} /\ fname' = {} /\ nfut' = 0 /\ obs' = {}
  /\ cfg' = [clean |-> clean, early |-> early, validate |-> validate]

T_Config == l <= Len(Trace) /\ E.ev = "config" /\ TLCSet(2, l) /\ l' = l + 1 /\ ResetAll(E.clean, E.early, E.validate)

ApiArg == IF E.m = "publish" THEN E.msg ELSE IF E.m = "connect" THEN E.clean ELSE 0

T_Events ==
  \/ IsEvent("newclient") /\ NewClient
  \/ IsEvent("api.call") /\ ApiCall(E.a, E.m, ApiArg)
  \/ IsEvent("api.ret") /\ ApiRet(E.a, E.m, E.err, E.fut)
  \/ IsEvent("api.panic") /\ G("C09", "NoCallPanics", FALSE) /\ NoChange
  \/ IsEvent("accessor.panic") /\ G("C09", "AccessorsTotal", FALSE) /\ NoChange
  \/ IsEvent("dial") /\ Dial(E.c, E.err)
  \/ IsEvent("csend") /\
       CASE E.pkt.t = "CONNECT" -> SendConnect(E.c, E.pkt)
         [] E.pkt.t = "PUBLISH" -> ApiSend(E.c, E.pkt) \/ ResendOne(E.c, E.pkt)
         [] E.pkt.t \in {"SUBSCRIBE", "UNSUBSCRIBE"} -> ApiSend(E.c, E.pkt)
         [] E.pkt.t = "DISCONNECT" -> SendDisconnect(E.c, E.pkt)
         [] E.pkt.t = "PUBREL" -> ProcSend(E.c, E.pkt) \/ ResendOne(E.c, E.pkt)
         [] E.pkt.t \in {"PUBACK", "PUBREC", "PUBCOMP"} -> ProcSend(E.c, E.pkt)
         [] OTHER -> G("C09", "ClientSendsOnlyClientPackets", E.pkt.t = "PINGREQ") /\ NoChange
  \/ IsEvent("csend_err") /\ (SendConnectFail(E.c) \/ ApiSendFail(E.c) \/ SendDisconnectFail(E.c) \/ ProcSendFail(E.c))
  \/ IsEvent("csend_buf") /\ (ApiSendBuffered(E.c, E.pkt) \/ ProcSendBuffered(E.c, E.pkt))
  \/ IsEvent("crecv") /\ CRecv(E.c, E.pkt)
  \/ IsEvent("crecv_err") /\ CRecvErr(E.c)
  \/ IsEvent("cclose") /\ CClose(E.c)
  \/ IsEvent("sess.reset") /\ SessReset(E.err)
  \/ IsEvent("sess.nextid") /\ NextID(E.id)
  \/ IsEvent("sess.save") /\ (IF E.d = "in" THEN IncSave(E.pkt, E.err) ELSE IF E.pkt.t = "PUBREL" THEN OutSaveRel(E.pkt, E.err) ELSE ApiSave(E.pkt, E.err))
  \/ IsEvent("sess.lookup") /\ IncLookup(E.id, E.pkt, E.err)
  \/ IsEvent("sess.delete") /\ (IF E.d = "in" THEN IncDelete(E.id, E.err) ELSE OutDelete(E.id, E.err))
  \/ IsEvent("sess.all") /\ ResendList(E.list, E.err)
  \/ IsEvent("cb.call") /\ CbCall(E.msg, E.n, E.ret)
  \/ IsEvent("cb.err") /\ CbErr
  \/ IsEvent("fut.done") /\ FutDone(E.f, E.st)
  \/ IsEvent("psend") /\ PeerSend(E.c, E.pkt)
  \/ IsEvent("precv") /\ PeerRecv(E.c, E.pkt)
  \/ IsEvent("pclose") /\ PeerClose(E.c)
  \/ IsEvent("cut") /\ Cut(E.c)
  \/ IsEvent("peof") /\ NoChange
  \/ IsEvent("pnote") /\ NoChange
  \/ IsEvent("gate.hold") /\ NoChange
  \/ IsEvent("gate.release") /\ NoChange
  \/ IsEvent("settle") /\ Settled(E.pending, E.stuck) /\ NoChange
  \/ IsEvent("probe") /\ Settled(E.pending, <<>>) /\ NoChange
  \/ IsEvent("end") /\ PrintT(<<"ACCEPTED", E.tr>>) /\ NoChange

T_Silent ==
  /\ l <= Len(Trace) /\ TLCSet(2, l) /\ UNCHANGED l
  /\ \/ \E w \in waiting : ApiEnter(w)
     \/ CleanupEarly
     \/ ApiLeave
     \/ EndWaitDone

T_Skip == l <= Len(Trace) /\ E.ev # "config" /\ l' = EndIdx[E.tr] + 1 /\ ResetAll(FALSE, FALSE, TRUE)

TNext == T_Config \/ T_Events \/ T_Silent \/ T_Skip
TSpec == TInit /\ [][TNext]_tvars

ASSUME TLCSet(2, 0)
ASSUME \A t \in TraceNums : TLCSet(10 + t, 0)
HW == l > Len(Trace) \/ (IF l > TLCGet(10 + E.tr) THEN TLCSet(10 + E.tr, l) ELSE TRUE)
PostReport ==
  \A t \in TraceNums : PrintT(<<"HW", t, TLCGet(10 + t), IF TLCGet(10 + t) \in 1..Len(Trace) THEN ToJson(Trace[TLCGet(10 + t)]) ELSE "{}">>)
=============================================================================
