SPECIFICATION MCSpec
CONSTANTS
  Conns = {@@CONNS@@}
  SKeys = {@@SKEYS@@}
  Report = FALSE
  Checked = {@@CHECKED@@}
  Scripts <- MCScripts
  OpenAfter <- MCOpenAfter
  NeedSubs = {@@NEED@@}
  MaxCuts = @@CUTS@@
  CutConns = {@@CUTCONNS@@}
  Window = @@WINDOW@@
  QueueCap = 100
  Withhold = {@@WITHHOLD@@}
  Dev = {@@DEV@@}
INVARIANTS @@INV@@
PROPERTIES @@PROPS@@
CHECK_DEADLOCK FALSE
